SPECIFICATION TSpec
CONSTANTS
  CtrCfgs <- AnyCfg
  PartFn <- ModDigits
INVARIANT TraceInv
CONSTRAINT Track
POSTCONDITION Post
CHECK_DEADLOCK FALSE

------------------------------- MODULE Reader -------------------------------
(***************************************************************************)
(* ktio::seq - C06.  Abstract records [id, desc, seq] are serialised into  *)
(* LINES (terminators are not modelled: bio trims them, LF or CRLF, and    *)
(* the last line may lack one); the line-level contract of bio's FASTA /   *)
(* FASTQ readers is a small state machine over those lines; the wrapper    *)
(* numbers the records 0,1,2,.. and the statistics pass counts records and *)
(* bases.  A gzip container is a sequence of members; the decoder returns  *)
(* the concatenation of ALL members (Decoder = "all_members"; the pinned   *)
(* tree used flate2's GzDecoder, "first_member", which silently dropped    *)
(* everything after the first member - repaired, see known findings).      *)
(*                                                                         *)
(* Line forms: <<"H", id, hasdesc>>   header (> or @)                      *)
(*             <<"S", chunk>>         sequence line                        *)
(*             <<"P">>                FASTQ separator line (+)             *)
(*             <<"Q", n>>             FASTQ quality line of n characters   *)
(***************************************************************************)
EXTENDS Naturals, Sequences, FiniteSets
CONSTANTS Scenarios,    \* [recs, fastq, wrap, cut]: records, format, wrap width (0 = one line),
                        \*   cut = 0: one stream / member; cut = c > 0: two gzip members split after line c
          Decoder       \* "all_members" | "first_member"
VARIABLES sc, rest, mode, cur, need, emitted, bases
rvars == <<sc, rest, mode, cur, need, emitted, bases>>

Chunks(s, w) == IF w = 0 \/ Len(s) = 0 THEN <<s>>
                ELSE [i \in 1..((Len(s) + w - 1) \div w) |->
                        SubSeq(s, (i - 1) * w + 1, IF i * w < Len(s) THEN i * w ELSE Len(s))]
RecLines(r, fastq, w) ==
  LET ch == Chunks(r.seq, w)
      sl == [i \in 1..Len(ch) |-> <<"S", ch[i]>>]
  IN <<<<"H", r.id, r.desc>>>> \o sl \o
     (IF fastq THEN <<<<"P">>>> \o [i \in 1..Len(ch) |-> <<"Q", Len(ch[i])>>] ELSE <<>>)
Serialise(recs, fastq, w) ==
  LET f[i \in 0..Len(recs)] == IF i = 0 THEN <<>> ELSE f[i-1] \o RecLines(recs[i], fastq, w)
  IN f[Len(recs)]
\* what the decoder hands to the parser
Visible(lines, cut) == IF cut = 0 \/ Decoder = "all_members" THEN lines
                       ELSE SubSeq(lines, 1, IF cut < Len(lines) THEN cut ELSE Len(lines))

RInitSc(s) == /\ sc = s /\ rest = Visible(Serialise(s.recs, s.fastq, s.wrap), s.cut)
              /\ mode = "start" /\ cur = <<>> /\ need = 0 /\ emitted = <<>> /\ bases = 0
RInit == \E s \in Scenarios : RInitSc(s)
RReset(s) == /\ sc' = s /\ rest' = Visible(Serialise(s.recs, s.fastq, s.wrap), s.cut)
             /\ mode' = "start" /\ cur' = <<>> /\ need' = 0 /\ emitted' = <<>> /\ bases' = 0

\* the record under construction is complete: number it and hand it out
Emit(c) == /\ emitted' = Append(emitted, [n |-> Len(emitted), id |-> c.id, seq |-> c.seq])
           /\ bases' = bases + Len(c.seq)

\* one line consumed by the parser
Line ==
  /\ rest # <<>>
  /\ LET ln == Head(rest) IN
     /\ rest' = Tail(rest)
     /\ CASE ln[1] = "H" /\ mode \in {"start", "seq"} /\ ~sc.fastq ->
               \* FASTA: a header closes the previous record (possibly with no bases) and opens the next
               /\ IF mode = "seq" THEN Emit(cur) ELSE UNCHANGED <<emitted, bases>>
               /\ cur' = [id |-> ln[2], seq |-> <<>>] /\ mode' = "seq" /\ UNCHANGED need
          [] ln[1] = "H" /\ mode = "start" /\ sc.fastq ->
               /\ cur' = [id |-> ln[2], seq |-> <<>>] /\ mode' = "seq" /\ UNCHANGED <<need, emitted, bases>>
          [] ln[1] = "S" /\ mode = "seq" ->
               /\ cur' = [cur EXCEPT !.seq = @ \o ln[2]] /\ UNCHANGED <<mode, need, emitted, bases>>
          [] ln[1] = "P" /\ mode = "seq" /\ sc.fastq ->
               /\ mode' = "qual" /\ need' = Len(cur.seq) /\ UNCHANGED <<cur, emitted, bases>>
          [] ln[1] = "Q" /\ mode = "qual" ->
               \* quality lines are read until as many characters as bases have been seen
               IF need <= ln[2]
               THEN /\ Emit(cur) /\ mode' = "start" /\ need' = 0 /\ cur' = <<>>
               ELSE /\ need' = need - ln[2] /\ UNCHANGED <<mode, cur, emitted, bases>>
          [] OTHER -> /\ mode' = "error" /\ UNCHANGED <<cur, need, emitted, bases>>
  /\ UNCHANGED sc

\* end of the stream: FASTA hands out the record in progress
Eof == /\ rest = <<>> /\ mode \in {"start", "seq"} /\ ~(mode = "seq" /\ sc.fastq)
       /\ IF mode = "seq" THEN Emit(cur) ELSE UNCHANGED <<emitted, bases>>
       /\ mode' = "done" /\ UNCHANGED <<sc, rest, cur, need>>

RNext == Line \/ Eof
RSpec == RInit /\ [][RNext]_rvars /\ WF_rvars(RNext)

-----------------------------------------------------------------------------
Expected == [i \in 1..Len(sc.recs) |-> [n |-> i - 1, id |-> sc.recs[i].id, seq |-> sc.recs[i].seq]]
SumLen(recs) == LET f[i \in 0..Len(recs)] == IF i = 0 THEN 0 ELSE f[i-1] + Len(recs[i].seq) IN f[Len(recs)]
\* C06: every record once, in order, numbered 0,1,2.. without gaps, id and bases exact, whatever the wrapping / container
RoundTrip == mode = "done" => emitted = Expected
Stats == mode = "done" => Len(emitted) = Len(sc.recs) /\ bases = SumLen(sc.recs)
\* what has been handed out is always a prefix of the input's records
PrefixInv == /\ Len(emitted) <= Len(sc.recs)
             /\ \A i \in 1..Len(emitted) : emitted[i] = Expected[i]
NoError == mode # "error"
Terminates == <>(mode = "done")
=============================================================================

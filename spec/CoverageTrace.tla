---------------------------- MODULE CoverageTrace ----------------------------
(***************************************************************************)
(* C08: coverage::CovComputer - each record's histogram of the global      *)
(* multiplicities of its k-mers.                                           *)
(*   creset{k,bs,bc,norm,crecs,recs}  k, bin size, bin count, normalised?, *)
(*                                    counting input records, records      *)
(*   crow{i,ncols,row}                decoded row i of kmers.vectors        *)
(*                                    (sparse <<bin, value, ...>>)         *)
(*   crows{rows,records}              number of rows written / records     *)
(* The specification builds the global count table from the counting       *)
(* input itself (gcount) and recomputes every histogram:                   *)
(*   entry b = #{windows w of record i : min(count(w) div bs, bc-1) = b}   *)
(* Rows are judged by the invariant RowOk on the line just consumed.       *)
(***************************************************************************)
EXTENDS CompOps, TraceLib, FiniteSets
VARIABLES gcount,     \* canonical k-mer -> occurrences in the counting input
          base,       \* index of the creset event of the current run
          nrows       \* rows of the current run consumed so far; -1 once its crows summary has been seen (or before any run)
tvars == <<l, gcount, base, nrows>>

BagAdd(b, k) == IF k \in DOMAIN b THEN [b EXCEPT ![k] = @ + 1]
                ELSE [x \in (DOMAIN b) \cup {k} |-> IF x = k THEN 1 ELSE b[x]]
BagOfSeq(s) == LET f[i \in 0..Len(s)] == IF i = 0 THEN <<>> ELSE BagAdd(f[i-1], s[i]) IN f[Len(s)]
AllWindows(recs, k) == LET f[i \in 0..Len(recs)] == IF i = 0 THEN <<>>
                                                    ELSE f[i-1] \o CanonWindows(Classes(recs[i]), k)
                       IN f[Len(recs)]

TInit == TrackInit /\ l = 1 /\ gcount = <<>> /\ base = 0 /\ nrows = 0 - 1
TReset == /\ Is("creset") /\ nrows = 0 - 1
          /\ gcount' = BagOfSeq(AllWindows(Ev.crecs, Ev.k))
          /\ base' = l /\ nrows' = 0 /\ Consume
\* rows arrive in file order; the run is closed by its crows summary
TRow == Is("crow") /\ base > 0 /\ nrows >= 0 /\ Ev.i = nrows /\ nrows' = nrows + 1 /\ Consume /\ UNCHANGED <<gcount, base>>
TRows == Is("crows") /\ base > 0 /\ nrows >= 0 /\ Ev.rows = nrows /\ nrows' = 0 - 1 /\ Consume /\ UNCHANGED <<gcount, base>>
TEofEv == Is("eof") /\ nrows = 0 - 1 /\ Consume /\ UNCHANGED <<gcount, base, nrows>>
TNext == TReset \/ TRow \/ TRows \/ TEofEv
TSpec == TInit /\ [][TNext]_tvars

RowVal(row, p) == LET hits == {j \in 1..(Len(row) \div 2) : row[2 * j - 1] = p}
                  IN IF hits = {} THEN 0 ELSE row[2 * (CHOOSE j \in hits : TRUE)]
Min(a, b) == IF a < b THEN a ELSE b
RowOk(e, r) ==
  LET cw == CanonWindows(Classes(r.recs[e.i + 1]), r.k)
      tot == Len(cw)
      cnt(d) == IF d \in DOMAIN gcount THEN gcount[d] ELSE 0          \* absent from the counting input: 0
      binOf(d) == Min(cnt(d) \div r.bs, r.bc - 1)
      hist == [b \in 0..(r.bc - 1) |-> Cardinality({j \in 1..tot : binOf(cw[j]) = b})]
  IN /\ e.i \in 0..(Len(r.recs) - 1)
     /\ e.ncols = r.bc
     /\ Len(e.row) % 2 = 0
     /\ \A j \in 1..(Len(e.row) \div 2) : e.row[2 * j - 1] \in 0..(r.bc - 1)      \* C14: bin index inside the row
     /\ \A b \in 0..(r.bc - 1) :
          IF r.norm = 0 THEN RowVal(e.row, b) = hist[b]
          ELSE NormOk(RowVal(e.row, b), hist[b], tot)

EventOk ==
  l > 1 =>
    LET e == Rec[l - 1] IN
    CASE e.ev = "crow"   -> RowOk(e, Rec[base])
      [] e.ev = "crows"  -> e.rows = e.records /\ e.records = Len(Rec[base].recs)    \* one row per record
      [] e.ev = "creset" -> TRUE
      [] e.ev = "eof"    -> l - 1 = Len(Rec)
      [] OTHER -> FALSE
Post == Accepted
=============================================================================

------------------------------- MODULE PosMap -------------------------------
(***************************************************************************)
(* C03: KmerGenerator::kmer_pos_maps(k) - the canonical k-mers in code     *)
(* order get the ranks 0,1,2,...  The specification scans the codes        *)
(* x = 0 .. 4^k-1 in increasing order with a rank counter; the real maps   *)
(* (dumped by `kvh table posmap`) are compared at every step (B1).         *)
(***************************************************************************)
EXTENDS Nt, TLC, IOUtils, Json
CONSTANT KSet
VARIABLES K, x, rank
vars == <<K, x, rank>>
Impl == ndJsonDeserialize(IOEnv.VIMPL)     \* line k: [pos |-> .., at |-> .., count |-> ..]

Init == K \in KSet /\ x = 0 /\ rank = 0
Next == /\ x < Pow4(K)
        /\ x' = x + 1
        /\ rank' = rank + (IF IsCanon(Digits(x, K)) THEN 1 ELSE 0)
        /\ UNCHANGED K
Spec == Init /\ [][Next]_vars

Half(n) == n \div 2
ClosedForm(k) == IF k % 2 = 0 THEN (Pow4(k) + Pow4(Half(k))) \div 2 ELSE Pow4(k) \div 2

\* rank never exceeds the closed-form count, and reaches it exactly at the end
RankBound == rank <= ClosedForm(K)
Final == x = Pow4(K) => rank = ClosedForm(K)

\* the real maps: canonical x |-> rank, rank |-> x, count; checked when the scan is at x
Conforms ==
  LET t == Impl[K] IN
  /\ x < Pow4(K) /\ IsCanon(Digits(x, K)) =>
        /\ t.pos[x + 1] = rank
        /\ rank < Len(t.at) /\ t.at[rank + 1] = x
  /\ x = Pow4(K) => t.count = rank /\ Len(t.at) = rank /\ Len(t.pos) = Pow4(K)
  \* whatever the table holds for a non-canonical code, it stays inside the vector
  /\ x < Pow4(K) => t.pos[x + 1] < t.count

\* column names returned by the Python binding's get_header(), line k = list of names (letter bytes); empty file: not checked.
\* Walking the codes in order ties each name to the canonical k-mer of the same rank - also for k beyond the CLI's range.
ImplHdr == ndJsonDeserialize(IOEnv.VHDR)
LetterByte == <<65, 67, 71, 84>>
NameOf(xx, kk) == [i \in 1..kk |-> LetterByte[Digits(xx, kk)[i] + 1]]
HeaderConforms ==
  K <= Len(ImplHdr) =>
    /\ x < Pow4(K) /\ IsCanon(Digits(x, K)) => rank < Len(ImplHdr[K]) /\ ImplHdr[K][rank + 1] = NameOf(x, K)
    /\ x = Pow4(K) => Len(ImplHdr[K]) = rank

KEnv == {atoi(IOEnv.VK)}
KEnvAll == 1..atoi(IOEnv.VK)
=============================================================================

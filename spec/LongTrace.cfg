SPECIFICATION TSpec
CONSTRAINT Track
POSTCONDITION Post
CHECK_DEADLOCK FALSE

SPECIFICATION Spec
INVARIANT Out
CHECK_DEADLOCK FALSE

----------------------------- MODULE ReaderTrace -----------------------------
(***************************************************************************)
(* Trace validation of the real reader (ktio::seq::Sequences iteration and *)
(* Sequences::seq_stats) on files materialised from scenarios (C06).       *)
(*   ropen{recs,fastq,wrap,cut,..}   the abstract scenario (the file's     *)
(*                                   bytes are built from it by the        *)
(*                                   harness: LF/CRLF, final newline,      *)
(*                                   plain / gzip members, suffix)         *)
(*   rrec{n,id,seq}                  one item yielded by the iterator      *)
(*   reof                            the iterator returned None            *)
(*   rstats{count,total}             result of the statistics pass         *)
(*   rfmt{ext,got}                   SeqFormat::get on a path with suffix  *)
(* The specification's line parser runs in lock-step: lines that complete  *)
(* no record are silent steps.                                             *)
(***************************************************************************)
EXTENDS Reader, TraceLib
VARIABLES started
tvars == <<rvars, l, started>>
NoSc == [recs |-> <<>>, fastq |-> FALSE, wrap |-> 0, cut |-> 0]
TInit == TrackInit /\ l = 1 /\ started = FALSE /\ RInitSc(NoSc)
ScOf(e) == [recs |-> [i \in 1..Len(e.recs) |-> [id |-> e.recs[i].id, desc |-> e.recs[i].desc, seq |-> e.recs[i].seq]],
            fastq |-> (e.fastq = 1), wrap |-> e.wrap, cut |-> e.cut]
TOpen == /\ Is("ropen") /\ (~started \/ mode = "done")
         /\ (\E s \in {ScOf(Ev)} : RReset(s))
         /\ started' = TRUE /\ Consume
TLine == started /\ Line /\ emitted' = emitted /\ mode' # "error" /\ UNCHANGED <<l, started>>
TRec == /\ Is("rrec") /\ started
        /\ (Line \/ Eof)
        /\ Len(emitted') = Len(emitted) + 1
        /\ emitted'[Len(emitted')] = [n |-> Ev.n, id |-> Ev.id, seq |-> Ev.seq]
        /\ Consume /\ UNCHANGED started
TEofEv == /\ Is("reof") /\ started
          /\ \/ mode = "done" /\ UNCHANGED rvars
             \/ Eof /\ emitted' = emitted
          /\ Consume /\ UNCHANGED started
TStats == /\ Is("rstats") /\ started /\ mode = "done"
          /\ Ev.count = Len(sc.recs) /\ Ev.total = SumLen(sc.recs)
          /\ Consume /\ UNCHANGED <<rvars, started>>
FormatOf(ext) == CASE ext \in {"fa", "fasta", "fna"} -> "fasta"
                   [] ext \in {"fq", "fastq"} -> "fastq"
                   [] OTHER -> "none"
TFmt == Is("rfmt") /\ Ev.got = FormatOf(Ev.ext) /\ Consume /\ UNCHANGED <<rvars, started>>
TEof == Is("eof") /\ (~started \/ mode = "done") /\ Consume /\ UNCHANGED <<rvars, started>>
TNext == TOpen \/ TLine \/ TRec \/ TEofEv \/ TStats \/ TFmt \/ TEof
TSpec == TInit /\ [][TNext]_tvars
TraceInv == PrefixInv /\ RoundTrip /\ Stats
Post == Accepted
AnySc == {NoSc}
Dec == "all_members"
=============================================================================

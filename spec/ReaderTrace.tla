----------------------------- MODULE ReaderTrace -----------------------------
(***************************************************************************)
(* Trace validation of the real reader (ktio::seq::Sequences iteration and *)
(* Sequences::seq_stats) on files materialised from scenarios (C06).       *)
(*   ropen{recs,fastq,wrap,cut,..}   the abstract scenario (the file's     *)
(*                                   bytes are built from it by the        *)
(*                                   harness: LF/CRLF, final newline,      *)
(*                                   plain / gzip members, suffix)         *)
(*   rrec{n,id,seq}                  one item yielded by the iterator      *)
(*   reof                            the iterator returned None            *)
(*   rstats{count,total}             result of the statistics pass         *)
(*   rfmt{ext,got}                   SeqFormat::get on a path with suffix  *)
(* The specification's line parser runs in lock-step: lines that complete  *)
(* no record are silent steps.                                             *)
(***************************************************************************)
EXTENDS Reader, TraceLib
VARIABLES started, finals
tvars == <<rvars, l, started, finals>>
NoSc == [recs |-> <<>>, fastq |-> FALSE, wrap |-> 0, cut |-> 0]
TInit == TrackInit /\ l = 1 /\ started = FALSE /\ finals = {} /\ RInitSc(NoSc)
\* a run is complete when the iterator's end and the statistics pass have both been seen
RunComplete == ~started \/ (mode = "done" /\ finals = {"reof", "rstats"})
ScOf(e) == [recs |-> [i \in 1..Len(e.recs) |-> [id |-> e.recs[i].id, desc |-> e.recs[i].desc, seq |-> e.recs[i].seq]],
            fastq |-> (e.fastq = 1), wrap |-> e.wrap, cut |-> e.cut]
TOpen == /\ Is("ropen") /\ RunComplete
         /\ (\E s \in {ScOf(Ev)} : RReset(s))
         /\ started' = TRUE /\ finals' = {} /\ Consume
TLine == started /\ Line /\ emitted' = emitted /\ mode' # "error" /\ UNCHANGED <<l, started, finals>>
TRec == /\ Is("rrec") /\ started
        /\ (Line \/ Eof)
        /\ Len(emitted') = Len(emitted) + 1
        /\ emitted'[Len(emitted')] = [n |-> Ev.n, id |-> Ev.id, seq |-> Ev.seq]
        /\ Consume /\ UNCHANGED <<started, finals>>
TEofEv == /\ Is("reof") /\ started
          /\ \/ mode = "done" /\ UNCHANGED rvars
             \/ Eof /\ emitted' = emitted
          /\ finals' = finals \cup {"reof"} /\ Consume /\ UNCHANGED started
TStats == /\ Is("rstats") /\ started /\ mode = "done"
          /\ Ev.count = Len(sc.recs) /\ Ev.total = SumLen(sc.recs)
          /\ finals' = finals \cup {"rstats"} /\ Consume /\ UNCHANGED <<rvars, started>>
FormatOf(ext) == CASE ext \in {"fa", "fasta", "fna"} -> "fasta"
                   [] ext \in {"fq", "fastq"} -> "fastq"
                   [] OTHER -> "none"
TFmt == Is("rfmt") /\ Ev.got = FormatOf(Ev.ext) /\ Consume /\ UNCHANGED <<rvars, started, finals>>
TEof == Is("eof") /\ RunComplete /\ Consume /\ UNCHANGED <<rvars, started, finals>>
TNext == TOpen \/ TLine \/ TRec \/ TEofEv \/ TStats \/ TFmt \/ TEof
TSpec == TInit /\ [][TNext]_tvars
TraceInv == PrefixInv /\ RoundTrip /\ Stats
Post == Accepted
AnySc == {NoSc}
Dec == "all_members"
=============================================================================

------------------------------ MODULE CliTrace ------------------------------
(***************************************************************************)
(* C15: outcomes of the real kmertools binary for TLC-enumerated option    *)
(* vectors, judged by the Cli specification.                               *)
(*   cli{o,refused,created}   o = the option vector (as printed by MCCli); *)
(*        refused = 1 iff the binary wrote a diagnostic (or exited         *)
(*        non-zero) ; created = 1 iff the output path / result file exists *)
(*   eq{what,a,b}             two digests that must be equal: CLI result   *)
(*        vs the library configured by Wire(o); pairs of runs that differ  *)
(*        only in preset (delimiter-normalised), header (body), threads,   *)
(*        acgt (decoded)                                                   *)
(***************************************************************************)
EXTENDS Cli, TraceLib
EventOk ==
  l > 1 =>
    LET e == Rec[l - 1] IN
    CASE e.ev = "cli" -> /\ (e.refused = 1) = ~Accepts(e.o)
                         /\ (e.refused = 1 => e.created = 0)        \* refused: no output produced
                         /\ (e.refused = 0 => e.created = 1)
      [] e.ev = "eq"  -> e.a = e.b /\ e.a # "missing"
      [] e.ev = "eof" -> l - 1 = Len(Rec)
      [] OTHER -> FALSE
TInit == TrackInit /\ l = 1
TNext == l <= Len(Rec) /\ Consume
TSpec == TInit /\ [][TNext]_l
Post == Accepted
=============================================================================

---------------------------- MODULE MCOligoMmap ----------------------------
(***************************************************************************)
(* Exhaustive exploration of OligoMmap: every interleaving of the workers  *)
(* for all small configurations (MC), and export of every complete         *)
(* schedule of one configuration for replay into the real worker pool      *)
(* through the controlled scheduler (binding B3).                          *)
(***************************************************************************)
EXTENDS OligoMmap, TLC, Json, IOUtils
NMax == atoi(IOEnv.VN)
WMax == atoi(IOEnv.VW)
AllCfgs == {[n |-> n, kc |-> kc, dl |-> dl, hdr |-> h, ksz |-> 2, nw |-> nw] :
              n \in 0..NMax, kc \in {1, 3}, dl \in 0..3, h \in BOOLEAN, nw \in 1..WMax}
OneCfg == {[n |-> NMax, kc |-> 2, dl |-> 1, hdr |-> FALSE, ksz |-> 1, nw |-> WMax]}
\* the schedule is a history variable: hidden from the state space of the exhaustive run
NoSched == <<cfg, phase, cap, reader, pc, held, writes>>
\* refinement: once every worker has left, the record ordinals read in increasing file offset are 0,1,..,n-1
RowsByOffset == LET recs == {x \in writes : x.n >= 0}
                    k == Cardinality(recs)
                IN [i \in 1..k |-> (CHOOSE x \in recs : Cardinality({y \in recs : y.off < x.off}) = i - 1).n]
Abs == INSTANCE OrderedRows WITH n <- cfg.n, rows <- IF Done THEN RowsByOffset ELSE <<>>, complete <- Done
RefinesOrderedRows == Abs!Spec
\* one line per complete behaviour
SchedOut == Done => PrintT(<<"SCHED", ToJson(sched)>>)
=============================================================================

SPECIFICATION TSpec
CONSTANT MoCfgs <- AnyCfg
INVARIANT TraceInv
CONSTRAINT Track
POSTCONDITION Post
CHECK_DEADLOCK FALSE

------------------------------- MODULE RunCover -------------------------------
(***************************************************************************)
(* "Every window of a run has minimum v" decided in one pass over the      *)
(* run's span instead of one pass per window.  c is the sequence of the    *)
(* (canonical) m-mer values of the span, q the number of m-mers in a       *)
(* window; window t (1-based) covers c[t..t+q-1].  All windows have        *)
(* minimum v iff no value of the span is smaller than v and every window   *)
(* holds an occurrence of v; the latter is read off the sorted occurrence  *)
(* positions: the first lies in the first window, the last in the last     *)
(* window, and no two neighbours are further apart than a window is wide   *)
(* (no recursion: spans reach a million positions).  Values are compared by*)
(* the operator Less.  TLC checks the equivalence for every short sequence *)
(* over three values (MCRunCover); LongTrace uses the one-pass form with   *)
(* Less = lexicographic order on digit sequences.                          *)
(***************************************************************************)
EXTENDS Naturals, Sequences, SequencesExt

\* plain: the least value of every window is v
WindowMin(c, t, q, Less(_, _)) == CHOOSE x \in {c[j] : j \in t..(t + q - 1)} : \A j \in t..(t + q - 1) : ~Less(c[j], x)
AllWindowsPlain(c, q, v, Less(_, _)) == \A t \in 1..(Len(c) - q + 1) : WindowMin(c, t, q, Less) = v

\* one pass, first form: last[j] = position of the most recent occurrence of v at or before j (recursion as deep as the
\* longest stretch without an occurrence: for spans where v occurs often)
LastOcc(c, v) == LET last[j \in 0..Len(c)] == IF j = 0 THEN 0 ELSE IF c[j] = v THEN j ELSE last[j - 1] IN last
AllWindowsByLast(c, q, v, Less(_, _)) ==
  /\ \A j \in 1..Len(c) : ~Less(c[j], v)
  /\ LET last == LastOcc(c, v) IN \A t \in 1..(Len(c) - q + 1) : last[t + q - 1] >= t

\* one pass, second form: the sorted occurrence positions (no recursion; sorting is slow, so for spans where v is rare)
Occurrences(c, v) == SetToSortSeq({j \in 1..Len(c) : c[j] = v}, <)
AllWindowsOnePass(c, q, v, Less(_, _)) ==
  /\ \A j \in 1..Len(c) : ~Less(c[j], v)
  /\ LET occ == Occurrences(c, v)
         n == Len(occ)
     IN /\ n >= 1
        /\ occ[1] <= q                              \* inside the first window (positions 1..q)
        /\ occ[n] >= Len(c) - q + 1                 \* inside the last window
        /\ \A i \in 1..(n - 1) : occ[i + 1] - occ[i] <= q
=============================================================================

------------------------------- MODULE RunCover -------------------------------
(***************************************************************************)
(* "Every window of a run has minimum v" decided in one pass over the      *)
(* run's span instead of one pass per window.  c is the sequence of the    *)
(* (canonical) m-mer values of the span, q the number of m-mers in a       *)
(* window; window t (1-based) covers c[t..t+q-1].  All windows have        *)
(* minimum v iff no value of the span is smaller than v and every window   *)
(* holds an occurrence of v; the latter is read off last[j], the position  *)
(* of the most recent occurrence at or before j.  Values are compared by   *)
(* the operator Less.  TLC checks the equivalence for every short sequence *)
(* over three values (MCRunCover); LongTrace uses the one-pass form with   *)
(* Less = lexicographic order on digit sequences.                          *)
(***************************************************************************)
EXTENDS Naturals, Sequences

\* plain: the least value of every window is v
WindowMin(c, t, q, Less(_, _)) == CHOOSE x \in {c[j] : j \in t..(t + q - 1)} : \A j \in t..(t + q - 1) : ~Less(c[j], x)
AllWindowsPlain(c, q, v, Less(_, _)) == \A t \in 1..(Len(c) - q + 1) : WindowMin(c, t, q, Less) = v

\* one pass: last[j] = position of the most recent occurrence of v at or before j (recursion as deep as the
\* longest stretch without an occurrence: for spans where v occurs often)
LastOcc(c, v) == LET last[j \in 0..Len(c)] == IF j = 0 THEN 0 ELSE IF c[j] = v THEN j ELSE last[j - 1] IN last
AllWindowsByLast(c, q, v, Less(_, _)) ==
  /\ \A j \in 1..Len(c) : ~Less(c[j], v)
  /\ LET last == LastOcc(c, v) IN \A t \in 1..(Len(c) - q + 1) : last[t + q - 1] >= t

=============================================================================

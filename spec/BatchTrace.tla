------------------------------ MODULE BatchTrace ------------------------------
(***************************************************************************)
(* Trace validation of the batch writers (oligo batch path, cgr, oligocgr, *)
(* coverage) recorded through the hooks.                                   *)
(*   reset{lens,mem,hdr}      record lengths, flush threshold, header line *)
(*   seq.take a=<<n,len>> / seq.take_none     the reading loop             *)
(*   *.batch_flush a=<<buffer length,..>>     one per flush                *)
(*   cov.loop_end, *.idx                      ignored here                 *)
(*   file{size,nul,lines}  row{i,rec}         decoded output               *)
(***************************************************************************)
EXTENDS Batch, TraceLib
VARIABLES started, eofSeen, rowsSeen
tvars == <<bvars, l, started, eofSeen, rowsSeen>>
NoCfg == [lens |-> <<>>, mem |-> 1]
TInit == TrackInit /\ l = 1 /\ started = FALSE /\ eofSeen = FALSE /\ rowsSeen = 0 /\ BInitCfg(NoCfg)
A(i) == Ev.a[i]
Skip == Consume /\ UNCHANGED <<bvars, started, eofSeen, rowsSeen>>
RunComplete == ~started \/ (fin /\ rowsSeen = N)
IsFlush == l <= Len(Rec) /\ Rec[l].ev \in {"oligo.batch_flush", "cgr.batch_flush", "oligocgr.batch_flush", "cov.batch_flush"}

TReset == /\ Is("reset") /\ RunComplete
          /\ BReset([lens |-> Ev.lens, mem |-> Ev.mem])
          /\ started' = TRUE /\ eofSeen' = FALSE /\ rowsSeen' = 0 - 1 /\ Consume
TTake == /\ Is("seq.take") /\ started /\ ~eofSeen /\ Read
         /\ A(1) = rd /\ A(2) = bcfg.lens[rd + 1]
         /\ Consume /\ UNCHANGED <<started, eofSeen, rowsSeen>>
TTakeNone == /\ Is("seq.take_none") /\ started /\ ~eofSeen /\ ~must /\ rd = N
             /\ eofSeen' = TRUE /\ Consume /\ UNCHANGED <<bvars, started, rowsSeen>>
TFlush == /\ IsFlush /\ started
          /\ A(1) = Len(buf)
          /\ \/ ~eofSeen /\ FlushFull
             \/ eofSeen /\ FinalFlush
          /\ Consume /\ UNCHANGED <<started, eofSeen, rowsSeen>>
\* nothing left to flush at the end: no event
TFinalNone == /\ started /\ eofSeen /\ FinalNone /\ UNCHANGED <<l, started, eofSeen, rowsSeen>>
TIgnore == /\ l <= Len(Rec) /\ Rec[l].ev \in {"cov.loop_end", "oligo.idx", "oligocgr.idx", "cov.idx"} /\ Skip
TFile == /\ Is("file") /\ fin /\ rowsSeen = 0 - 1 /\ Ev.lines = N + Rec[l].hdr /\ Ev.nul = 0
         /\ rowsSeen' = 0 /\ Consume /\ UNCHANGED <<bvars, started, eofSeen>>
TRow == /\ Is("row") /\ fin /\ Ev.i = rowsSeen /\ Ev.rec = Ev.i /\ Ev.i \in 0..(N - 1)
        /\ rowsSeen' = rowsSeen + 1 /\ Consume /\ UNCHANGED <<bvars, started, eofSeen>>
TEof == Is("eof") /\ RunComplete /\ Skip
TNext == TReset \/ TTake \/ TTakeNone \/ TFlush \/ TFinalNone \/ TIgnore \/ TFile \/ TRow \/ TEof
TSpec == TInit /\ [][TNext]_tvars
TraceInv == OrderInv /\ DoneInv
Post == Accepted
AnyCfg == {NoCfg}
=============================================================================

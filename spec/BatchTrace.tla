------------------------------ MODULE BatchTrace ------------------------------
(***************************************************************************)
(* Trace validation of the batch writers (oligo batch path, cgr, oligocgr, *)
(* coverage) recorded through the hooks.                                   *)
(*   reset{lens,mem,hdr}      record lengths, flush threshold, header line *)
(*   seq.take a=<<n,len>> / seq.take_none     the reading loop             *)
(*   *.batch_flush a=<<buffer length,..>>     one per flush                *)
(*   cov.loop_end, *.idx                      ignored here                 *)
(*   file{size,nul,lines}  row{i,rec}         decoded output               *)
(***************************************************************************)
EXTENDS Batch, TraceLib
VARIABLES started, eofSeen, rowsSeen
tvars == <<bvars, l, started, eofSeen, rowsSeen>>
NoCfg == [lens |-> <<>>, mem |-> 1]
TInit == TrackInit /\ l = 1 /\ started = FALSE /\ eofSeen = FALSE /\ rowsSeen = 0 /\ BInitCfg(NoCfg)
A(i) == Ev.a[i]
Skip == Consume /\ UNCHANGED <<bvars, started, eofSeen, rowsSeen>>
RunComplete == ~started \/ (fin /\ rowsSeen = N)
IsFlush == l <= Len(Rec) /\ Rec[l].ev \in {"oligo.batch_flush", "cgr.batch_flush", "oligocgr.batch_flush", "cov.batch_flush"}

TReset == /\ Is("reset") /\ RunComplete
          /\ BReset([lens |-> Ev.lens, mem |-> Ev.mem])
          /\ started' = TRUE /\ eofSeen' = FALSE /\ rowsSeen' = 0 - 1 /\ Consume
\* WHERE the code flushes is not part of any property (only that rows come out complete and in order), so the trace
\* specification accepts a flush at any point of the reading loop - the threshold rule of Batch!Read / FlushFull is
\* model-checked on the specification itself (MCBatch) but not imposed on the implementation
TTake == /\ Is("seq.take") /\ started /\ ~eofSeen /\ rd < N
         /\ A(1) = rd /\ A(2) = bcfg.lens[rd + 1]
         /\ rd' = rd + 1 /\ buf' = Append(buf, rd) /\ total' = total + bcfg.lens[rd + 1]
         /\ must' = (total' >= bcfg.mem)
         /\ UNCHANGED <<bcfg, rows, fin>>
         /\ Consume /\ UNCHANGED <<started, eofSeen, rowsSeen>>
TTakeNone == /\ Is("seq.take_none") /\ started /\ ~eofSeen /\ rd = N
             /\ eofSeen' = TRUE /\ Consume /\ UNCHANGED <<bvars, started, rowsSeen>>
TFlush == /\ IsFlush /\ started /\ ~fin
          /\ A(1) = Len(buf)
          /\ rows' = rows \o buf /\ buf' = <<>> /\ total' = 0 /\ must' = FALSE
          /\ fin' = fin /\ UNCHANGED <<bcfg, rd>>
          /\ Consume /\ UNCHANGED <<started, eofSeen, rowsSeen>>
\* nothing left to flush at the end: no event
\* the loop is over: whatever is still buffered at this point is lost (then DoneInv fails)
TFinalNone == /\ started /\ eofSeen /\ ~fin /\ Is("file")
              /\ fin' = TRUE /\ UNCHANGED <<bcfg, rd, buf, total, must, rows>>
              /\ UNCHANGED <<l, started, eofSeen, rowsSeen>>
TIgnore == /\ l <= Len(Rec) /\ Rec[l].ev \in {"cov.loop_end", "oligo.idx", "oligocgr.idx", "cov.idx"} /\ Skip
TFile == /\ Is("file") /\ fin /\ rowsSeen = 0 - 1 /\ Ev.lines = N + Rec[l].hdr /\ Ev.nul = 0
         /\ rowsSeen' = 0 /\ Consume /\ UNCHANGED <<bvars, started, eofSeen>>
TRow == /\ Is("row") /\ fin /\ Ev.i = rowsSeen /\ Ev.rec = Ev.i /\ Ev.i \in 0..(N - 1)
        /\ rowsSeen' = rowsSeen + 1 /\ Consume /\ UNCHANGED <<bvars, started, eofSeen>>
TEof == Is("eof") /\ RunComplete /\ Skip
TNext == TReset \/ TTake \/ TTakeNone \/ TFlush \/ TFinalNone \/ TIgnore \/ TFile \/ TRow \/ TEof
TSpec == TInit /\ [][TNext]_tvars
TraceInv == OrderInv /\ DoneInv
Post == Accepted
AnyCfg == {NoCfg}
=============================================================================

SPECIFICATION CSpec
CONSTANTS
  CtrCfgs <- AllCfgs
  PartFn <- Mod
INVARIANTS Exact SumIsWindows NoTempLeft PartitionInv PartIndex Conservation
PROPERTY Terminates
CHECK_DEADLOCK FALSE

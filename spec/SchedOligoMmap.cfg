SPECIFICATION Spec
CONSTANTS
  LegacyPlan = FALSE
  CfgSet <- OneCfg
INVARIANTS SchedOut InBounds Disjoint Tiling RowOrder
CHECK_DEADLOCK FALSE

SPECIFICATION Spec
CONSTANT CfgSet <- OneCfg
INVARIANTS SchedOut InBounds Disjoint Tiling RowOrder
CHECK_DEADLOCK FALSE

SPECIFICATION Spec
CONSTANTS
  LegacyPlan = FALSE
  CfgSet <- AllCfgs
VIEW NoSched
INVARIANTS InBounds Disjoint Tiling RowOrder EachOnce HeldDistinct CoveredIffTotal
PROPERTIES Terminates RefinesOrderedRows
CHECK_DEADLOCK FALSE

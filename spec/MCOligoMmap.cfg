SPECIFICATION Spec
CONSTANTS
  LegacyPlan = FALSE
  CfgSet <- AllCfgs
VIEW NoSched
INVARIANTS InBounds Disjoint Tiling RowOrder EachOnce HeldDistinct
PROPERTY Terminates
CHECK_DEADLOCK FALSE

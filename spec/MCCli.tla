-------------------------------- MODULE MCCli --------------------------------
(***************************************************************************)
(* TLC enumerates every option vector of Cli, checks the meta-properties   *)
(* of the wiring and prints each vector with the expected outcome and the  *)
(* library configuration, for replay against the real binary (B4).         *)
(***************************************************************************)
EXTENDS Cli, Json
VARIABLE v
Init == v \in OligoOpts \/ v \in CgrOpts \/ v \in CovOpts \/ v \in MinOpts \/ v \in CtrOpts
Next == UNCHANGED v
Spec == Init /\ [][Next]_v
SeqOf(S) == LET f[T \in SUBSET S] == IF T = {} THEN <<>> ELSE LET x == CHOOSE y \in T : TRUE IN <<x>> \o f[T \ {x}] IN f[S]
Out == PrintT(<<"VEC", ToJson([o |-> v, accept |-> Accepts(v), wire |-> IF Accepts(v) THEN Wire(v) ELSE [lib |-> "none"],
                               src |-> SeqOf(SrcKinds(v)), dst |-> SeqOf(DstKinds(v)), spell |-> SeqOf(Spellings)])>>)
Meta == MetaOf(v) /\ AcceptStable(v)
=============================================================================

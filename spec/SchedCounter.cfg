SPECIFICATION SSpec
CONSTANTS
  CtrCfgs <- SchedCfg
  PartFn <- Mod
INVARIANTS SchedOut Exact NoTempLeft
CHECK_DEADLOCK FALSE

SPECIFICATION MCSpec
CONSTANT MaxLen <- LEnv
INVARIANTS PrefixDetermined SubSquare Inside RejectIffOther Conforms
CHECK_DEADLOCK FALSE

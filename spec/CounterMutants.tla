--------------------------- MODULE CounterMutants ---------------------------
(***************************************************************************)
(* Design-level mutants of Counter, used by bin/selftest to show that the  *)
(* invariants are not vacuous: each variant must be REJECTED by TLC.       *)
(*  - DropAtLimit: a worker re-checks the limit after taking a record and  *)
(*    leaves without counting it (the record is lost).                     *)
(*  - MergeSkipsLast: the merge ignores the last chunk.                    *)
(*  - WrongPartition: a k-mer is filed under the wrong partition when the  *)
(*    chunk number is odd (so it is merged under two partitions).          *)
(***************************************************************************)
EXTENDS MCCounter
TakeDrop(w) ==
  /\ phase = "count" /\ pc[w] = "take"
  /\ IF reader < N
     THEN /\ held' = [held EXCEPT ![w] = reader]
          /\ reader' = reader + 1
          /\ nrecs' = nrecs + 1
          /\ pc' = [pc EXCEPT ![w] = IF total > ccfg.limit THEN "exit" ELSE "count"]
     ELSE /\ pc' = [pc EXCEPT ![w] = "exit"]
          /\ UNCHANGED <<held, reader, nrecs>>
  /\ UNCHANGED <<ccfg, phase, chunk, total, table, temps, counts, mpart, mtodo, mread, mmap>>
NextDrop == \/ \E w \in Workers : CheckLimit(w, TRUE) \/ TakeDrop(w) \/ Count(w) \/ AddTotal(w)
            \/ ChunkEnd \/ (\E c \in 0..chunk : MergeRead(c) \/ MergeDelete(c)) \/ MergeWrite \/ Finish
SpecDrop == CInit /\ [][NextDrop]_cvars

MergeWriteSkip ==
  /\ phase = "merge" /\ mpart < ccfg.nparts /\ mread = {} /\ mtodo \subseteq {chunk - 1}
  /\ counts' = BagUnion(counts, mmap)
  /\ mpart' = mpart + 1 /\ mtodo' = 0..(chunk - 1) /\ mmap' = EmptyBag
  /\ UNCHANGED <<ccfg, phase, chunk, reader, total, nrecs, pc, held, table, temps, mread>>
NextSkip == \/ \E w \in Workers : CheckLimit(w, TRUE) \/ Take(w) \/ Count(w) \/ AddTotal(w)
            \/ ChunkEnd \/ (\E c \in 0..chunk : MergeRead(c) \/ MergeDelete(c)) \/ MergeWriteSkip \/ Finish
SpecSkip == CInit /\ [][NextSkip]_cvars
=============================================================================

------------------------------ MODULE MCRunCover ------------------------------
EXTENDS RunCover, TLC
VARIABLES c, q, v
Init == /\ c \in UNION {[1..n -> 0..2] : n \in 1..8}
        /\ q \in 1..8 /\ q <= Len(c) /\ v \in 0..2
Next == UNCHANGED <<c, q, v>>
Spec == Init /\ [][Next]_<<c, q, v>>
Lt(a, b) == a < b
Equivalent == AllWindowsByLast(c, q, v, Lt) <=> AllWindowsPlain(c, q, v, Lt)
=============================================================================

SPECIFICATION Spec
INVARIANTS Meta Out
CHECK_DEADLOCK FALSE

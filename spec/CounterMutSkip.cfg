SPECIFICATION SpecSkip
CONSTANTS
  CtrCfgs <- AllCfgs
  PartFn <- Mod
INVARIANTS Exact NoTempLeft
CHECK_DEADLOCK FALSE

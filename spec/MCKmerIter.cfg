SPECIFICATION MCSpec
CONSTANTS
  KSet <- KEnv
  MaxLen <- LEnv
INVARIANTS OutIsWindows PairRC InRange RegInv StrandSym CanonBagSym Conforms ImplStrandSym
CHECK_DEADLOCK FALSE

------------------------------ MODULE KmerIter ------------------------------
(***************************************************************************)
(* kmer::kmer::KmerGenerator::next — the rolling 2-bit k-mer iterator.     *)
(* One Step(c) is one trip round the loop body for an input byte of class  *)
(* c.  The forward and reverse registers f, r are k base-4 digits; like    *)
(* the code they are NOT cleared on an ambiguous byte, only `len` is.      *)
(***************************************************************************)
EXTENDS Nt
CONSTANTS KSet,     \* k-mer sizes explored (subset of 1..31)
          MaxLen    \* bound on the input length explored
VARIABLES K,        \* the iterator's k (its `ksize` field; fixed at construction - a variable only
                    \* because one trace file holds runs with different k)
          inp,      \* history: classes consumed so far (the implementation's pos = Len(inp))
          f, r,     \* registers (fval, rval) as K digits
          len,      \* number of clean bases accumulated, capped at K-1 after an emission
          out       \* sequence of emitted pairs <<f, r>>
vars == <<K, inp, f, r, len, out>>

Init == /\ K \in KSet /\ inp = <<>> /\ f = ZeroMer(K) /\ r = ZeroMer(K) /\ len = 0 /\ out = <<>>

\* fval = ((fval << 2) | c) & mask ; rval = (rval >> 2) | ((3-c) << 2(k-1))
ShiftF(x, c) == Append(Tail(x), c)
ShiftR(x, c) == <<3 - c>> \o SubSeq(x, 1, K - 1)

Step(c) ==
  /\ Len(inp) < MaxLen
  /\ UNCHANGED K
  /\ inp' = Append(inp, c)
  /\ IF c = Ambig
     THEN /\ len' = 0
          /\ UNCHANGED <<f, r, out>>
     ELSE /\ f' = ShiftF(f, c)
          /\ r' = ShiftR(r, c)
          /\ IF len + 1 = K
             THEN /\ len' = K - 1
                  /\ out' = Append(out, <<ShiftF(f, c), ShiftR(r, c)>>)
             ELSE /\ len' = len + 1
                  /\ UNCHANGED out

Next == \E c \in 0..4 : Step(c)
Spec == Init /\ [][Next]_vars

-----------------------------------------------------------------------------
\* C01: the output after any prefix is exactly the clean windows of that prefix
OutIsWindows == out = Windows(inp, K)

\* C02: second component is the reverse complement of the first
PairRC == \A i \in 1..Len(out) : out[i][2] = RC(out[i][1])

\* every emitted code has exactly K digits in 0..3 (i.e. is < 4^K)
InRange == \A i \in 1..Len(out) : \A p \in 1..2 :
              /\ Len(out[i][p]) = K
              /\ \A j \in 1..K : out[i][p][j] \in 0..3

\* length of the clean suffix of s
CleanSuffix(s) == LET c[i \in 0..Len(s)] == IF i = 0 THEN 0
                                           ELSE IF s[i] = 4 THEN 0 ELSE c[i-1] + 1
                  IN c[Len(s)]

\* register invariant (inductive strength): len tracks the clean suffix, the
\* low `len` digits of f are that suffix and the high `len` digits of r its RC
RegInv == LET n == Len(inp)
              cs == CleanSuffix(inp)
              m == IF cs < K THEN cs ELSE K  \* clean bases currently in the registers
          IN /\ len = (IF cs < K THEN cs ELSE K - 1)
             /\ \A i \in 1..m : f[K - m + i] = inp[n - m + i]
             /\ \A i \in 1..m : r[i] = 3 - inp[n + 1 - i]

\* C02 strand symmetry, on the declarative definition: the windows of the
\* reverse-complemented sequence are the original ones reversed, strands swapped
SwapRev(w) == [j \in 1..Len(w) |-> <<w[Len(w) + 1 - j][2], w[Len(w) + 1 - j][1]>>]
StrandSym == Windows(RCs(inp), K) = SwapRev(Windows(inp, K))
CanonBagSym == SameBag(CanonWindows(RCs(inp), K), CanonWindows(inp, K))
=============================================================================

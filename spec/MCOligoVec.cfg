SPECIFICATION MCSpec
CONSTANTS
  KSet <- KEnv
  MaxLen <- LEnv
INVARIANTS VecIsCount TotalIsWindows IndexInRange RCInvariant ConformsRaw ConformsNorm WritersAgree
CHECK_DEADLOCK FALSE

-------------------------------- MODULE MCCgr --------------------------------
(***************************************************************************)
(* Exhaustive exploration of Cgr with the real vectorise_one's result for  *)
(* every input (binding B1).  Table entry: <<-1>> if the call returned Err *)
(* else <<X1, Y1, X2, Y2, ...>> with Xi = x_i * 2^(i+1) / S, the exact     *)
(* integer numerator recovered by the harness from the f64 coordinate      *)
(* (entry <<-2, i>> if coordinate i is not such a dyadic multiple of S).   *)
(***************************************************************************)
EXTENDS Cgr, TLC, IOUtils, Json
VARIABLE idx
LEnv == atoi(IOEnv.VL)
Impl == ndJsonDeserialize(IOEnv.VIMPL)
At(t, i) == t[(i \div 1024) + 1][(i % 1024) + 1]
MCInit == Init /\ idx = 0
MCNext == \E c \in 0..4 : Step(c) /\ idx' = idx * 5 + c + 1
\* after a rejection the input may still grow (the call has returned Err already)
MCSkip == rejected /\ Len(inp) < MaxLen /\ \E c \in 0..4 : inp' = Append(inp, c) /\ idx' = idx * 5 + c + 1
                   /\ UNCHANGED <<xs, ys, pts, rejected>>
MCSpec == MCInit /\ [][MCNext \/ MCSkip]_<<cvars, idx>>
Flat(p) == [j \in 1..(2 * Len(p)) |-> Num(p[(j + 1) \div 2][IF j % 2 = 1 THEN 1 ELSE 2])]
Conforms == At(Impl, idx) = (IF rejected THEN <<0 - 1>> ELSE Flat(pts))
=============================================================================

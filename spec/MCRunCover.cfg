SPECIFICATION Spec
INVARIANT Equivalent
CHECK_DEADLOCK FALSE

----------------------------- MODULE OrderedRows -----------------------------
(***************************************************************************)
(* The abstract contract every record-oriented writer implements (C05,     *)
(* C08, C11, C12): nothing is visible until the run completes, and then    *)
(* the output holds exactly one row per record, row i belonging to record  *)
(* i.  OligoMmap (memory-mapped writer, any interleaving) and Batch        *)
(* (ordered batch loop, any flush pattern) are both checked by TLC to      *)
(* REFINE this specification (RefinesOrderedRows in MCOligoMmap / MCBatch).*)
(***************************************************************************)
EXTENDS Naturals, Sequences
VARIABLES n, rows, complete
Iota(k) == [i \in 1..k |-> i - 1]
Init == n \in Nat /\ rows = <<>> /\ complete = FALSE
Finish == ~complete /\ complete' = TRUE /\ rows' = Iota(n) /\ UNCHANGED n
Next == Finish
Spec == Init /\ [][Next]_<<n, rows, complete>>
=============================================================================

------------------------------ MODULE LongTrace ------------------------------
(***************************************************************************)
(* Runs of the three iterators of the kmer crate over LONG sequences       *)
(* (positions beyond 2^16), where the history-carrying trace               *)
(* specifications KmerIterTrace / MinimiserTrace would be quadratic.       *)
(* The state keeps no history: only where the previous item ended.  Each   *)
(* item is judged against the declarative definition read directly off     *)
(* the input bytes of the run's init event:                                *)
(*   kemit{f,r,pos}   the window ending at pos is clean, f are its digits, *)
(*                    r = RC(f), and no clean window was skipped since     *)
(*                    the previous item (Nt!Windows, item by item)         *)
(*   mrun{v,s,e,kmers} every w-window starting in s..e-w is clean and has  *)
(*                    minimiser v; no clean window lies between the        *)
(*                    previous run and s; a run directly following the     *)
(*                    previous one has another minimiser (MinOps!RunsWM,   *)
(*                    run by run); kmers (if reported) are the canonical   *)
(*                    w-mers of exactly those windows                      *)
(*   kend / mend      no clean window is left                              *)
(* Internal registers are not looked at here (the short traces do that).   *)
(***************************************************************************)
EXTENDS MinOps, TraceLib, FiniteSets
VARIABLES base,      \* index of the init event of the current run (0: none)
          nxt,       \* kmers: position after the last item (1-based end of window); runs: 0-based start of the first window not yet accounted for
          lastv,     \* runs: minimiser of the previous run, <<>> if the previous window was not in a run
          adj,       \* runs: TRUE iff the previous run's last window is the window just before nxt
          carry,     \* k-mer variant: w-mers reported ahead of the runs validated so far (the lists attached to the runs are a
          owed       \* re-chunking of the w-mer sequence: C18 states their concatenation) / window starts whose w-mer is still due
tvars == <<l, base, nxt, lastv, adj, carry, owed>>

Bytes == Rec[base].bytes
N == Len(Bytes)
Cl(i) == ClassOf(Bytes[i])                                   \* 1-based
CleanB(i, k) == \A j \in i..(i + k - 1) : Cl(j) # 4          \* window of k bytes starting at 1-based i
Dig(i, k) == [j \in 1..k |-> Cl(i + j - 1)]
MaxI(a, b) == IF a > b THEN a ELSE b

TInit == TrackInit /\ l = 1 /\ base = 0 /\ nxt = 0 /\ lastv = <<>> /\ adj = FALSE /\ carry = <<>> /\ owed = <<>>
Idle == base = 0

\* ------------------------------------------------------------ k-mer iterator
TKInit == /\ Is("kinit") /\ Idle /\ Ev.k \in 1..31
          /\ base' = l /\ nxt' = 0 /\ lastv' = <<>> /\ adj' = FALSE /\ Consume /\ UNCHANGED <<carry, owed>>
K == Rec[base].k
TKEmit == /\ Is("kemit") /\ ~Idle /\ Rec[base].ev = "kinit"
          /\ LET p == Ev.pos IN
             /\ p > nxt /\ p >= K /\ p <= N
             /\ CleanB(p - K + 1, K)
             /\ HighZero(Ev.f, K) /\ LowDigits(Ev.f, K) = Dig(p - K + 1, K)
             /\ HighZero(Ev.r, K) /\ LowDigits(Ev.r, K) = RC(Dig(p - K + 1, K))
             /\ \A q \in MaxI(nxt + 1, K)..(p - 1) : ~CleanB(q - K + 1, K)       \* nothing skipped
             /\ nxt' = p
          /\ Consume /\ UNCHANGED <<base, lastv, adj, carry, owed>>
TKEnd == /\ Is("kend") /\ ~Idle /\ Rec[base].ev = "kinit"
         /\ Ev.pos = N
         /\ \A q \in MaxI(nxt + 1, K)..N : ~CleanB(q - K + 1, K)
         /\ base' = 0 /\ nxt' = 0 /\ Consume /\ UNCHANGED <<lastv, adj, carry, owed>>

\* ------------------------------------------------------------ minimiser iterators
W == Rec[base].w
M == Rec[base].m
\* least canonical m-mer of the window with 0-based start s0
WinMinB(s0) ==
  LET i == s0 + 1
      best[j \in i..(i + W - M)] ==
        IF j = i THEN Canon(Dig(i, M))
        ELSE LET p == best[j - 1]
                 c == Canon(Dig(j, M))
             IN IF LexLess(c, p) THEN c ELSE p
  IN best[i + W - M]
TMInit == /\ Is("minit") /\ Idle /\ Ev.m >= 1 /\ Ev.w >= Ev.m /\ Ev.m <= 31
          /\ base' = l /\ nxt' = 0 /\ lastv' = <<>> /\ adj' = FALSE /\ Consume /\ UNCHANGED <<carry, owed>>
Min2(a, b) == IF a < b THEN a ELSE b
TMRun == /\ Is("mrun") /\ ~Idle /\ Rec[base].ev = "minit"
         /\ Ev.open = 1                                         \* never the placeholder
         /\ LET s == Ev.s
                e == Ev.e
                v == LowDigits(Ev.v, M)
            IN /\ HighZero(Ev.v, M)
               /\ s >= nxt /\ e - s >= W /\ e <= N
               /\ \A t \in nxt..(s - 1) : ~CleanB(t + 1, W)     \* no clean window skipped
               /\ CleanB(s + 1, e - s)                           \* the whole span is clean
               \* every window of the run has minimiser v - RunCover!AllWindowsByLast written out on the span's canonical m-mers
               \* (one pass over the span instead of one per window; the equivalence with the plain form is model-checked
               \* there): nothing in the span is smaller than v, and every window holds an occurrence of v (for a handful of windows
               \* window by window; otherwise through the most recent occurrence at or before the window's last m-mer)
               /\ LET cm == [j \in (s + 1)..(e - M + 1) |-> Canon(Dig(j, M))]       \* canonical m-mers of the span, once
                      q == W - M + 1                                                  \* m-mers per window
                      \* the most recent occurrence at or before j (RunCover!AllWindowsByLast; recursion as deep as the longest gap)
                      last[j \in s..(e - M + 1)] == IF j = s THEN 0 ELSE IF cm[j] = v THEN j ELSE last[j - 1]
                  IN /\ \A j \in (s + 1)..(e - M + 1) : ~LexLess(cm[j], v)
                     /\ IF e - W - s < 24      \* a handful of windows (w = 0: one): window by window, as stated
                        THEN \A t \in s..(e - W) : {j \in (t + 1)..(t + 1 + W - M) : cm[j] = v} # {}      \* (a set test: \E in an action branches)
                        ELSE \A t \in s..(e - W) : last[t + 1 + W - M] >= t + 1
               /\ (adj /\ s = nxt) => lastv # v                 \* maximal on the left
               /\ IF Rec[base].kv = 1
                  THEN LET comb == carry \o [i \in 1..Len(Ev.kmers) |-> LowDigits(Ev.kmers[i], W)]
                           wins == owed \o [t \in 1..(e - W - s + 1) |-> s + t - 1]
                           n == Min2(Len(comb), Len(wins))
                       IN /\ \A i \in 1..Len(Ev.kmers) : HighZero(Ev.kmers[i], W)
                          /\ \A i \in 1..n : comb[i] = Canon(Dig(wins[i] + 1, W))      \* in order, none lost, none invented
                          /\ carry' = SubSeq(comb, n + 1, Len(comb))
                          /\ owed' = SubSeq(wins, n + 1, Len(wins))
                  ELSE Ev.kmers = <<>> /\ UNCHANGED <<carry, owed>>
               /\ nxt' = e - W + 1 /\ lastv' = v /\ adj' = TRUE
         /\ Consume /\ UNCHANGED base
TMEnd == /\ Is("mend") /\ ~Idle /\ Rec[base].ev = "minit"
         /\ \A t \in nxt..(N - W) : ~CleanB(t + 1, W)
         /\ carry = <<>> /\ owed = <<>>                          \* every w-mer reported, nothing beyond the last window
         /\ UNCHANGED <<carry, owed>>
         /\ base' = 0 /\ nxt' = 0 /\ lastv' = <<>> /\ adj' = FALSE /\ Consume
TEof == Is("eof") /\ Idle /\ Consume /\ UNCHANGED <<base, nxt, lastv, adj, carry, owed>>

TNext == TKInit \/ TKEmit \/ TKEnd \/ TMInit \/ TMRun \/ TMEnd \/ TEof
TSpec == TInit /\ [][TNext]_tvars
Post == Accepted
=============================================================================

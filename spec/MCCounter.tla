------------------------------ MODULE MCCounter ------------------------------
(***************************************************************************)
(* Exhaustive exploration of Counter: every interleaving of up to WMax     *)
(* workers over small record lists whose k-mers collide (all workers hit   *)
(* the same keys), limits giving 1..4 chunks, 1..3 partitions, deleting    *)
(* and non-deleting merge; plus export of complete worker schedules of one *)
(* configuration for replay (binding B3).                                  *)
(***************************************************************************)
EXTENDS Counter, TLC, Json, IOUtils
WMax == atoi(IOEnv.VW)
Mod(k, n) == k % n
R(ks) == [len |-> Len(ks) + 1, kmers |-> ks]
RecLists == { << R(<<0, 1>>), R(<<1>>), R(<<1, 1, 2>>), [len |-> 0, kmers |-> <<>>] >>,
              << R(<<0>>), R(<<0>>), R(<<0>>) >>,
              << R(<<2, 1, 0>>) >>,
              << >> }
AllCfgs == {[recs |-> r, nparts |-> np, limit |-> lim, nw |-> nw, delete |-> d] :
              r \in RecLists, np \in 1..3, lim \in {0, 2, 100}, nw \in 1..WMax, d \in BOOLEAN}
\* the configuration whose worker schedules are exported; `kvh replay counter` runs the real counter on the records
\* "AANAC", "AC", "ACNACNAG" with k = 2 (canonical 2-mers AA=0, AC=1, AG=2), i.e. exactly these k-mer lists and lengths
SchedCfg == {[recs |-> << [len |-> 5, kmers |-> <<0, 1>>], [len |-> 2, kmers |-> <<1>>], [len |-> 8, kmers |-> <<1, 1, 2>>] >>,
              nparts |-> 2, limit |-> atoi(IOEnv.VLIM), nw |-> WMax, delete |-> TRUE]}
=============================================================================

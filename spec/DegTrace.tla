------------------------------ MODULE DegTrace ------------------------------
(* C16: observed outcomes deg{s,exit,crashed,hung,rows} of the real binary, judged by Degenerate!Outcome *)
EXTENDS Degenerate, TraceLib
EventOk ==
  l > 1 =>
    LET e == Rec[l - 1] IN
    CASE e.ev = "deg" -> Outcome(e.s, e)
      [] e.ev = "eof" -> l - 1 = Len(Rec)
      [] OTHER -> FALSE
TInit == TrackInit /\ l = 1 /\ sc = [cmd |-> "ctr", shapes |-> <<>>, threads |-> 1]
TNext == l <= Len(Rec) /\ Consume /\ UNCHANGED sc
TSpec == TInit /\ [][TNext]_<<l, sc>>
Post == Accepted
=============================================================================

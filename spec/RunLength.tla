------------------------------ MODULE RunLength ------------------------------
(***************************************************************************)
(* Records far too long to be handed to TLC letter by letter (tens of      *)
(* millions of bases: the sizes at which narrow counters and single        *)
(* precision totals give way) are described by their run-length encoding:  *)
(* a sequence of <<class, length>> runs, every run at least k long, so a   *)
(* k-window touches at most two runs.  The canonical k-mer counts of such  *)
(* a record follow from the runs alone:                                    *)
(*   - a run of a clean class c with length n holds n - k + 1 windows c^k  *)
(*   - the junction of two clean runs a | b holds one window a^i b^(k-i)   *)
(*     for every i in 1..k-1                                               *)
(*   - every window touching an ambiguous run is dropped                   *)
(* RleAgrees states that this count is the declarative one of Nt on the    *)
(* expanded record; TLC checks it for every encoding of a small universe   *)
(* (MCRunLength.cfg), and FactsTrace then uses RleOcc / RleTotal to judge  *)
(* rows of records of any length.                                          *)
(***************************************************************************)
EXTENDS Nt, FiniteSets

Homo(c, n) == [i \in 1..n |-> c]
Junction(a, b, i, k) == [j \in 1..k |-> IF j <= i THEN a ELSE b]

\* well-formed for k: every run at least k long (and at least 1)
RleOk(rle, k) == \A j \in 1..Len(rle) : rle[j][2] >= k /\ rle[j][2] >= 1 /\ rle[j][1] \in 0..4

\* occurrences of the canonical k-mer d
RleOcc(rle, k, d) ==
  LET runs[j \in 0..Len(rle)] ==
        IF j = 0 THEN 0
        ELSE runs[j-1] + (IF rle[j][1] # 4 /\ Canon(Homo(rle[j][1], k)) = d THEN rle[j][2] - k + 1 ELSE 0)
      junc[j \in 0..Len(rle)] ==
        IF j <= 1 THEN 0
        ELSE junc[j-1] + (IF rle[j-1][1] # 4 /\ rle[j][1] # 4
                          THEN Cardinality({i \in 1..(k-1) : Canon(Junction(rle[j-1][1], rle[j][1], i, k)) = d})
                          ELSE 0)
  IN runs[Len(rle)] + junc[Len(rle)]

\* number of valid windows
RleTotal(rle, k) ==
  LET t[j \in 0..Len(rle)] ==
        IF j = 0 THEN 0
        ELSE t[j-1] + (IF rle[j][1] # 4 THEN rle[j][2] - k + 1 ELSE 0)
                    + (IF j > 1 /\ rle[j-1][1] # 4 /\ rle[j][1] # 4 THEN k - 1 ELSE 0)
  IN t[Len(rle)]

\* canonical k-mers that occur at all
RleKinds(rle, k) ==
  {Canon(Homo(rle[j][1], k)) : j \in {j \in 1..Len(rle) : rle[j][1] # 4}}
  \cup UNION {{Canon(Junction(rle[j-1][1], rle[j][1], i, k)) : i \in 1..(k-1)} :
                j \in {j \in 2..Len(rle) : rle[j-1][1] # 4 /\ rle[j][1] # 4}}

\* the windows as a sequence of <<canonical k-mer, number of windows>>: one pair per clean run, one per junction window
RlePairs(rle, k) ==
  LET f[j \in 0..Len(rle)] ==
        IF j = 0 THEN <<>>
        ELSE f[j-1]
             \o (IF j > 1 /\ rle[j-1][1] # 4 /\ rle[j][1] # 4
                 THEN [i \in 1..(k-1) |-> <<Canon(Junction(rle[j-1][1], rle[j][1], i, k)), 1>>] ELSE <<>>)
             \o (IF rle[j][1] # 4 THEN << <<Canon(Homo(rle[j][1], k)), rle[j][2] - k + 1>> >> ELSE <<>>)
  IN f[Len(rle)]
PairWeight(pairs, P(_)) ==
  LET t[i \in 0..Len(pairs)] == IF i = 0 THEN 0 ELSE t[i-1] + (IF P(pairs[i][1]) THEN pairs[i][2] ELSE 0) IN t[Len(pairs)]

\* the record itself
Expand(rle) ==
  LET e[j \in 0..Len(rle)] == IF j = 0 THEN <<>> ELSE e[j-1] \o Homo(rle[j][1], rle[j][2]) IN e[Len(rle)]

RleAgreesOn(rle, k) ==
  LET cw == CanonWindows(Expand(rle), k)
      kinds == {cw[i] : i \in 1..Len(cw)}
  IN /\ RleTotal(rle, k) = Len(cw)
     /\ RleKinds(rle, k) = kinds
     /\ \A d \in kinds : RleOcc(rle, k, d) = Occ(cw, d)
     /\ \A d \in kinds : PairWeight(RlePairs(rle, k), LAMBDA x : x = d) = Occ(cw, d)
     /\ \A i \in 1..Len(RlePairs(rle, k)) : RlePairs(rle, k)[i][1] \in kinds /\ RlePairs(rle, k)[i][2] >= 1
=============================================================================

-------------------------------- MODULE MCNt --------------------------------
(***************************************************************************)
(* C02 at model level and against the implementation (binding B1).        *)
(* The state space is the 4-ary tree of all digit strings d up to length   *)
(* KMax: node d stands for the k-mer code x = Code(d) with k = Len(d), so  *)
(* one run covers every code x < 4^k for every k <= KMax.                  *)
(* Impl: per k and x the real rev_comp(x, k) and numeric_to_kmer(x, k)     *)
(* (as letter bytes), dumped by `kvh table revcomp`.                       *)
(***************************************************************************)
EXTENDS Nt, TLC, IOUtils, Json
VARIABLE d
KMax == atoi(IOEnv.VK)
Impl == ndJsonDeserialize(IOEnv.VIMPL)

\* lines of the table: k = 1..5 one line each, k > 5: 4^(k-5) lines of 1024 entries
LinesOf(k) == IF k <= 5 THEN 1 ELSE Pow4(k - 5)
Off(k) == LET o[i \in 1..k] == IF i = 1 THEN 0 ELSE o[i-1] + LinesOf(i-1) IN o[k]
ImplAt(k, x) == Impl[Off(k) + (x \div 1024) + 1][(x % 1024) + 1]     \* <<rc, b1, .., bk>>

Init == d = <<>>
Next == Len(d) < KMax /\ \E c \in 0..3 : d' = Append(d, c)
Spec == Init /\ [][Next]_d

LetterByte == <<65, 67, 71, 84>>
DecodeBytes(q) == [i \in 1..Len(q) |-> LetterByte[q[i] + 1]]
k == Len(d)
x == Code(d)

\* model-level facts about the loops the code runs
LoopIsRC      == k >= 1 => RevCompLoop(x, k) = Code(RC(d))
Involution    == RC(RC(d)) = d
RCIsTextRC    == LET t == Decode(d)
                     rt == [i \in 1..k |-> Letters[4 - LetterDigit(t[k + 1 - i])]]   \* A<->T, C<->G
                 IN Encode(rt) = RC(d)
DecodeInverse == /\ Len(Decode(d)) = k
                 /\ Encode(Decode(d)) = d
                 /\ NumericToKmerLoop(x, k) = Decode(d)
CanonIdem     == Canon(Canon(d)) = Canon(d) /\ Canon(RC(d)) = Canon(d)

\* the real functions agree on every code
Conforms == k >= 1 =>
              LET e == ImplAt(k, x) IN
              /\ e[1] = Code(RC(d))
              /\ SubSeq(e, 2, Len(e)) = DecodeBytes(d)
=============================================================================

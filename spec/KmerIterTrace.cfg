SPECIFICATION TSpec
CONSTANTS
  KSet <- KAll
  MaxLen <- BigLen
INVARIANT TraceInv
CONSTRAINT Track
POSTCONDITION Post
CHECK_DEADLOCK FALSE

--------------------------------- MODULE Cli ---------------------------------
(***************************************************************************)
(* kmertools/src/args.rs - C15.  An option vector is a record; Accepts     *)
(* says whether the command line must be accepted (documented ranges),     *)
(* Wire gives the library configuration cli() must build from it.          *)
(* Numeric options take the values just outside, at, and inside their      *)
(* ranges; "none" = option absent.                                         *)
(***************************************************************************)
EXTENDS Naturals, Sequences, FiniteSets, TLC
None == 0 - 1
Presets == {"csv", "tsv", "spc"}
Delim(p) == CASE p = "csv" -> "," [] p = "tsv" -> "\t" [] p = "spc" -> " "
Threads == {0, 1, 4, 16}

OligoOpts == [cmd : {"oligo"}, k : {2, 3, 5, 7, 8}, preset : Presets, counts : BOOLEAN, header : BOOLEAN,
              threads : Threads, stdin : BOOLEAN]
CgrOpts   == [cmd : {"cgr"}, k : {None, 2, 3, 7, 8}, counts : BOOLEAN, vecsize : {None, 1, 16}, threads : Threads]
CovOpts   == [cmd : {"cov"}, k : {6, 7, 15, 31, 32}, bs : {4, 5, 16}, bc : {4, 5, 16}, memory : {5, 6, 128, 129},
              counts : BOOLEAN, preset : Presets, alt : BOOLEAN, threads : Threads]
MinOpts   == [cmd : {"min"}, m : {6, 7, 10, 28, 29}, wrel : {"zero", "less", "equal", "plus1", "big"},
              preset : {"s2m", "m2s"}, threads : Threads]
CtrOpts   == [cmd : {"ctr"}, k : {9, 10, 15, 31, 32}, memory : {5, 6, 128, 129}, acgt : BOOLEAN, threads : Threads]
Vectors == OligoOpts \cup CgrOpts \cup CovOpts \cup MinOpts \cup CtrOpts

WindowOf(o) == CASE o.wrel = "zero" -> 0 [] o.wrel = "less" -> o.m - 1 [] o.wrel = "equal" -> o.m
                 [] o.wrel = "plus1" -> o.m + 1 [] o.wrel = "big" -> o.m + 30

\* documented ranges: oligo/cgr k 3..7; cov k 7..31, bins >= 5, memory 6..128; min m 7..28 and w = 0 or w > m;
\* ctr k 10..31, memory 6..128; whole-sequence CGR has no counts mode
Accepts(o) ==
  CASE o.cmd = "oligo" -> o.k \in 3..7
    [] o.cmd = "cgr"   -> IF o.k = None THEN ~o.counts ELSE o.k \in 3..7
    [] o.cmd = "cov"   -> o.k \in 7..31 /\ o.bs >= 5 /\ o.bc >= 5 /\ o.memory \in 6..128
    [] o.cmd = "min"   -> o.m \in 7..28 /\ (WindowOf(o) = 0 \/ WindowOf(o) > o.m)
    [] o.cmd = "ctr"   -> o.k \in 10..31 /\ o.memory \in 6..128

\* the library call the command line stands for (threads 0 = the library's default, i.e. not set)
Wire(o) ==
  CASE o.cmd = "oligo" -> [lib |-> "oligo", k |-> o.k, delim |-> Delim(o.preset), norm |-> ~o.counts, header |-> o.header,
                           threads |-> o.threads, path |-> IF o.stdin \/ o.counts THEN "batch" ELSE "mmap"]
    [] o.cmd = "cgr" /\ o.k = None -> [lib |-> "cgr", vecsize |-> IF o.vecsize = None THEN 1 ELSE o.vecsize, threads |-> o.threads]
    [] o.cmd = "cgr" /\ o.k # None -> [lib |-> "oligocgr", k |-> o.k, vecsize |-> IF o.vecsize = None THEN o.k * o.k ELSE o.vecsize,
                                       norm |-> ~o.counts, threads |-> o.threads]
    [] o.cmd = "cov"   -> [lib |-> "cov", k |-> o.k, bs |-> o.bs, bc |-> o.bc, memory |-> o.memory, norm |-> ~o.counts,
                           delim |-> Delim(o.preset), alt |-> o.alt, threads |-> o.threads]
    [] o.cmd = "min"   -> [lib |-> o.preset, m |-> o.m, w |-> WindowOf(o), threads |-> o.threads]
    [] o.cmd = "ctr"   -> [lib |-> "ctr", k |-> o.k, memory |-> o.memory, acgt |-> o.acgt, threads |-> o.threads, delete |-> TRUE]

\* ------------------------------------------------------------------------
\* The ENVIRONMENT of a run is not part of an option vector: what kind of file is behind -i (regular file, named pipe,
\* /dev/stdin) and behind -o (regular file, /dev/stdout into a pipe), how the output location is spelled (absolute, relative,
\* ./relative), environment variables. Wire has no argument for any of it: one vector stands for one library call whatever the
\* environment, so the replay may run each vector in any environment the command supports and must find the same result.
\* A stream can only be the source of a command that reads its input once, and only the sink of a command that writes its
\* output front to back:
SinglePass(o) == o.cmd \in {"cgr", "min"} \/ (o.cmd = "oligo" /\ o.counts)
Streams(o)    == o.cmd \in {"cgr", "min"} \/ (o.cmd = "oligo" /\ (o.counts \/ o.stdin))
\* (the minimiser listings tell the format from the file name, which /dev/stdin does not have)
SrcKinds(o) == IF o.cmd = "oligo" /\ o.stdin THEN {"file"}
               ELSE IF ~SinglePass(o) THEN {"file"}
               ELSE IF o.cmd = "min" THEN {"file", "fifo"} ELSE {"file", "fifo", "devstdin"}
DstKinds(o) == IF Streams(o) THEN {"file", "pipe"} ELSE {"file"}
Spellings == {"abs", "rel", "dotrel"}
\* the writer strategy follows: a streamed source cannot be memory-mapped
StreamsNeverMapped(o) == (o.cmd = "oligo" /\ Accepts(o) /\ Wire(o).path = "mmap") => ~Streams(o)

\* ------------------------------------------------------------------------
\* meta-properties of the wiring (C15's "and nothing more"), stated for one vector o against every vector that
\* differs from it in exactly one option
WireBut(x, y, fs) == DOMAIN x = DOMAIN y /\ \A g \in (DOMAIN x) \ fs : x[g] = y[g]
Has(o, f) == f \in DOMAIN o
\* the presets change only the delimiter
PresetOnlyDelim(o) == Has(o, "preset") /\ o.cmd \in {"oligo", "cov"} =>
                        \A p \in Presets : WireBut(Wire(o), Wire([o EXCEPT !.preset = p]), {"delim"})
\* the header flag only the header
HeaderOnlyHeader(o) == Has(o, "header") => WireBut(Wire(o), Wire([o EXCEPT !.header = ~o.header]), {"header"})
\* the thread option only the thread count
ThreadsOnlyThreads(o) == \A t \in Threads : WireBut(Wire(o), Wire([o EXCEPT !.threads = t]), {"threads"})
\* counts only the normalisation (and, for oligo, the writer strategy that follows from it)
CountsOnlyNorm(o) == Has(o, "counts") /\ o.cmd # "cgr" => WireBut(Wire(o), Wire([o EXCEPT !.counts = ~o.counts]), {"norm", "path"})
\* acgt only the rendering
AcgtOnlyRender(o) == Has(o, "acgt") => WireBut(Wire(o), Wire([o EXCEPT !.acgt = ~o.acgt]), {"acgt"})
\* acceptance never depends on presets, flags or threads
AcceptStable(o) == /\ \A t \in Threads : Accepts([o EXCEPT !.threads = t]) = Accepts(o)
                   /\ Has(o, "preset") /\ o.cmd # "min" => \A p \in Presets : Accepts([o EXCEPT !.preset = p]) = Accepts(o)
                   /\ Has(o, "header") => Accepts([o EXCEPT !.header = ~o.header]) = Accepts(o)
                   /\ Has(o, "acgt") => Accepts([o EXCEPT !.acgt = ~o.acgt]) = Accepts(o)
                   /\ Has(o, "stdin") => Accepts([o EXCEPT !.stdin = ~o.stdin]) = Accepts(o)
                   /\ Has(o, "alt") => Accepts([o EXCEPT !.alt = ~o.alt]) = Accepts(o)
MetaOf(o) == /\ StreamsNeverMapped(o)
             /\ Accepts(o) => PresetOnlyDelim(o) /\ HeaderOnlyHeader(o) /\ ThreadsOnlyThreads(o) /\ CountsOnlyNorm(o) /\ AcgtOnlyRender(o)
=============================================================================

------------------------------ MODULE MCMinOut ------------------------------
EXTENDS MinOut, TLC
WMax == 3
\* records with 0..2 runs over two minimiser values (collisions on the same key)
RunLists == {<<>>, <<<<7, 0, 4>>>>, <<<<7, 0, 4>>, <<9, 2, 6>>>>, <<<<9, 0, 5>>, <<9, 7, 12>>>>}
RecLists == UNION {[1..n -> RunLists] : n \in 0..3}
\* ids: every record its own name, or all records the same name
Cfgs == {[mode |-> md, runs |-> r, nw |-> nw, ids |-> [i \in 1..Len(r) |-> IF dup THEN 0 ELSE i - 1]] :
           md \in {"s2m", "m2s"}, r \in RecLists, nw \in 1..WMax, dup \in BOOLEAN}
=============================================================================

SPECIFICATION FSpec
CONSTANTS
  RunSet <- Runs
  MaxHist <- Three
INVARIANTS ReadOwn ResultFresh NoOwnTemp
CHECK_DEADLOCK FALSE

SPECIFICATION Spec
CONSTANTS
  LegacyPlan = TRUE
  CfgSet <- AllCfgs
VIEW NoSched
INVARIANTS InBounds Disjoint Tiling RowOrder EachOnce HeldDistinct CoveredIffTotal
CHECK_DEADLOCK FALSE

----------------------------- MODULE MinOutTrace -----------------------------
(***************************************************************************)
(* Trace validation of seq_to_min / bin_sequences runs (C10).              *)
(*   reset{mode,w,m,recs,ids,nw}  mode "s2m" | "m2s", window (0 = whole    *)
(*                                record), minimiser size, record bytes,   *)
(*                                id number of each record (not unique)    *)
(*   min.* / seq.take*            hook events, t = worker (task) number    *)
(*   s2mline{rec,runs}            decoded line of the s2m output: record   *)
(*                                id, <<m-mer digits, start, end>>..       *)
(*   m2sline{v,items}             decoded line of the m2s output: m-mer    *)
(*                                digits, <<record id, start, end>>..      *)
(*   outlines{n}                  number of lines in the output file       *)
(* The runs of every record are computed by the specification (MinOps).    *)
(***************************************************************************)
EXTENDS MinOut, MinOps, TraceLib
VARIABLES started, seen, silent, closed
tvars == <<ovars, l, started, seen, silent, closed>>
NoCfg == [mode |-> "s2m", runs |-> <<>>, nw |-> 1, ids |-> <<>>]
TInit == TrackInit /\ l = 1 /\ started = FALSE /\ seen = {} /\ silent = FALSE /\ closed = TRUE /\ MInitCfg(NoCfg)
A(i) == Ev.a[i]
W == Ev.t
Skip == Consume /\ UNCHANGED <<ovars, started, seen, silent, closed>>
Keep == UNCHANGED <<started, seen, silent, closed>>

WinFor(b, w) == IF w = 0 THEN Len(b) ELSE w
CfgOf(e) == [mode |-> e.mode, nw |-> e.nw, ids |-> e.ids,
             runs |-> [i \in 1..Len(e.recs) |-> RunsWM(Classes(e.recs[i]), WinFor(e.recs[i], e.w), e.m)]]

TReset == /\ Is("reset") /\ (~started \/ (Done /\ closed)) /\ Ev.nw >= 1 /\ Len(Ev.ids) = Len(Ev.recs)
          /\ (\E c \in {CfgOf(Ev)} : MReset(c))       \* (bound once: TLC re-evaluates plain operator arguments in actions)
          /\ started' = TRUE /\ seen' = {} /\ silent' = (Ev.run = "cli") /\ closed' = FALSE /\ Consume
TStart == Is("min.worker_start") /\ started /\ W \in Workers /\ pc[W] = "take" /\ Skip
TBefTake == Is("min.before_take") /\ W \in Workers /\ pc[W] = "take" /\ Skip
TTake == Is("seq.take") /\ W \in Workers /\ reader < N /\ Take(W) /\ held'[W] = A(1) /\ Consume /\ Keep
TTakeNone == Is("seq.take_none") /\ W \in Workers /\ reader = N /\ Take(W) /\ Consume /\ Keep
TAftTake == Is("min.after_take") /\ W \in Workers /\ pc[W] = "emit" /\ held[W] = A(1) /\ Skip
TWrite == Is("min.before_write") /\ W \in Workers /\ held[W] = A(1) /\ WriteLine(W) /\ Consume /\ Keep
TPush == Is("min.before_push") /\ W \in Workers /\ held[W] = A(1) /\ PushRec(W) /\ Consume /\ Keep
TExit == Is("min.worker_exit") /\ W \in Workers /\ pc[W] = "exit" /\ Skip

\* s2m: a line with id `rec` lists exactly the runs, in order, of a record with that id which has no line yet
\* (records sharing id and runs are interchangeable, so the choice is fixed)
TS2m == /\ Is("s2mline") /\ Done /\ mcfg.mode = "s2m"
        /\ LET c == {i \in 0..(N - 1) : i \notin seen /\ IdOf(i) = Ev.rec /\ Ev.runs = mcfg.runs[i + 1]} IN
           /\ c # {}
           /\ seen' = seen \cup {CHOOSE i \in c : TRUE}
        /\ Consume /\ UNCHANGED <<ovars, started, silent, closed>>
\* m2s: the line of minimiser v lists exactly what the model's table holds for v, as a multiset; each key once
SameBagSeq(p, q) == Len(p) = Len(q) /\ \A i \in 1..Len(p) : CountIn(p, p[i]) = CountIn(q, p[i])
TM2s == /\ Is("m2sline") /\ Done /\ mcfg.mode = "m2s"
        /\ Ev.v \in DOMAIN table /\ Ev.v \notin seen
        /\ SameBagSeq(Ev.items, table[Ev.v])
        /\ seen' = seen \cup {Ev.v} /\ Consume /\ UNCHANGED <<ovars, started, silent, closed>>
TLines == /\ Is("outlines") /\ Done
          /\ Ev.n = Cardinality(seen)
          /\ Ev.n = (IF mcfg.mode = "s2m" THEN N ELSE Cardinality(DOMAIN table))
          /\ closed' = TRUE /\ Consume /\ UNCHANGED <<ovars, started, seen, silent>>
TEof == Is("eof") /\ (~started \/ (Done /\ closed)) /\ Skip
\* output files of the command line (no hooks): the model runs silently with one worker
TSilent == /\ started /\ silent /\ ~Done
           /\ (Take(1) \/ WriteLine(1) \/ PushRec(1))
           /\ UNCHANGED <<l, started, seen, silent, closed>>
TNext == TSilent \/ TReset \/ TStart \/ TBefTake \/ TTake \/ TTakeNone \/ TAftTake \/ TWrite \/ TPush \/ TExit
         \/ TS2m \/ TM2s \/ TLines \/ TEof
TSpec == TInit /\ [][TNext]_tvars
\* (Inversion is checked on the model exhaustively by MCMinOut; here every m2s line is compared with the model's table,
\* which is the inversion by construction, so the quadratic declarative form is not re-evaluated in every state)
TraceInv == OneLinePerRecord
Post == Accepted
AnyCfg == {NoCfg}
=============================================================================

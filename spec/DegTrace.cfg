SPECIFICATION TSpec
INVARIANT EventOk
CONSTRAINT Track
POSTCONDITION Post
CHECK_DEADLOCK FALSE

------------------------------- MODULE MinOut -------------------------------
(***************************************************************************)
(* misc::minimisers::seq_to_min (s2m) and bin_sequences (m2s) - C10.       *)
(* N workers repeatedly take the next record under the reader's mutex and  *)
(*   s2m: write ONE complete line (id + the record's runs) under the       *)
(*        writer's mutex;                                                  *)
(*   m2s: push (id, start, end) to the list of each run's minimiser in a   *)
(*        concurrent map (one atomic entry update per run); the map is     *)
(*        dumped, one line per key, after all workers have finished.       *)
(* A record is represented by its sequence of runs <<value, start, end>>.  *)
(***************************************************************************)
EXTENDS Naturals, Sequences, FiniteSets
CONSTANTS MoCfgs      \* [mode, runs (per record: sequence of runs), nw]
VARIABLES mcfg, reader, pc, held, ridx, lines, table
ovars == <<mcfg, reader, pc, held, ridx, lines, table>>
N == Len(mcfg.runs)
Workers == 1..mcfg.nw
\* the id printed for record i (0-based ordinal). Ids need not be unique: a file may hold two records with one name, and the
\* outputs then list both (a configuration without an ids field names every record by its ordinal)
IdOf(i) == IF "ids" \in DOMAIN mcfg THEN mcfg.ids[i + 1] ELSE i

MInitCfg(c) == /\ mcfg = c /\ reader = 0
               /\ pc = [w \in 1..c.nw |-> "take"] /\ held = [w \in 1..c.nw |-> 0] /\ ridx = [w \in 1..c.nw |-> 0]
               /\ lines = <<>> /\ table = <<>>
MInit == \E c \in MoCfgs : MInitCfg(c)
MReset(c) == /\ mcfg' = c /\ reader' = 0
             /\ pc' = [w \in 1..c.nw |-> "take"] /\ held' = [w \in 1..c.nw |-> 0] /\ ridx' = [w \in 1..c.nw |-> 0]
             /\ lines' = <<>> /\ table' = <<>>

Take(w) == /\ pc[w] = "take"
           /\ IF reader < N
              THEN /\ held' = [held EXCEPT ![w] = reader] /\ reader' = reader + 1
                   /\ pc' = [pc EXCEPT ![w] = "emit"] /\ ridx' = [ridx EXCEPT ![w] = 0]
              ELSE /\ pc' = [pc EXCEPT ![w] = "exit"] /\ UNCHANGED <<held, reader, ridx>>
           /\ UNCHANGED <<mcfg, lines, table>>

\* s2m: the whole line in one write under the writer's lock
WriteLine(w) == /\ mcfg.mode = "s2m" /\ pc[w] = "emit"
                /\ lines' = Append(lines, held[w])
                /\ pc' = [pc EXCEPT ![w] = "take"]
                /\ UNCHANGED <<mcfg, reader, held, ridx, table>>

Push(tb, v, item) == IF v \in DOMAIN tb THEN [tb EXCEPT ![v] = Append(@, item)]
                     ELSE [x \in (DOMAIN tb) \cup {v} |-> IF x = v THEN <<item>> ELSE tb[x]]
\* m2s: one entry update per run
PushRun(w) == /\ mcfg.mode = "m2s" /\ pc[w] = "emit"
              /\ LET rs == mcfg.runs[held[w] + 1] IN
                 IF ridx[w] < Len(rs)
                 THEN LET r == rs[ridx[w] + 1] IN
                      /\ table' = Push(table, r[1], <<IdOf(held[w]), r[2], r[3]>>)
                      /\ ridx' = [ridx EXCEPT ![w] = @ + 1]
                      /\ UNCHANGED pc
                 ELSE /\ pc' = [pc EXCEPT ![w] = "take"] /\ UNCHANGED <<table, ridx>>
              /\ UNCHANGED <<mcfg, reader, held, lines>>
\* the same, all runs of the record at once (granularity of the hooks)
PushRec(w) == /\ mcfg.mode = "m2s" /\ pc[w] = "emit"
              /\ LET rs == mcfg.runs[held[w] + 1]
                     f[i \in 0..Len(rs)] == IF i = 0 THEN table
                                            ELSE Push(f[i-1], rs[i][1], <<IdOf(held[w]), rs[i][2], rs[i][3]>>)
                 IN table' = f[Len(rs)]
              /\ pc' = [pc EXCEPT ![w] = "take"]
              /\ UNCHANGED <<mcfg, reader, held, ridx, lines>>

MNext == \E w \in Workers : Take(w) \/ WriteLine(w) \/ PushRun(w)
MSpec == MInit /\ [][MNext]_ovars /\ WF_ovars(MNext)
Done == \A w \in Workers : pc[w] = "exit"

-----------------------------------------------------------------------------
CountIn(s, x) == Cardinality({i \in 1..Len(s) : s[i] = x})
\* s2m: exactly one line per record
OneLinePerRecord == Done /\ mcfg.mode = "s2m" =>
                      /\ Len(lines) = N
                      /\ \A i \in 0..(N - 1) : CountIn(lines, i) = 1
\* m2s is the exact inversion of s2m (lists as multisets): key v lists (id of i, s, e) exactly for the runs <<v, s, e>> of record i,
\* as often as they occur (two records may carry the same id)
RunIdx == UNION {{<<i, j>> : j \in 1..Len(mcfg.runs[i + 1])} : i \in 0..(N - 1)}     \* (record, run number)
Expected(v) == {p \in RunIdx : mcfg.runs[p[1] + 1][p[2]][1] = v}
Inversion == Done /\ mcfg.mode = "m2s" =>
               /\ DOMAIN table = {mcfg.runs[p[1] + 1][p[2]][1] : p \in RunIdx}
               /\ \A v \in DOMAIN table :
                    /\ Len(table[v]) = Cardinality(Expected(v))
                    /\ \A p \in Expected(v) :
                         LET r == mcfg.runs[p[1] + 1][p[2]]
                         IN CountIn(table[v], <<IdOf(p[1]), r[2], r[3]>>) =
                            Cardinality({q \in Expected(v) : /\ mcfg.runs[q[1] + 1][q[2]][2] = r[2]
                                                              /\ mcfg.runs[q[1] + 1][q[2]][3] = r[3]
                                                              /\ IdOf(q[1]) = IdOf(p[1])})
Terminates == <>Done
=============================================================================

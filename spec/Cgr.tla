--------------------------------- MODULE Cgr ---------------------------------
(***************************************************************************)
(* composition::cgr::CgrComputer::vectorise_one - whole-sequence chaos     *)
(* game representation.  TLC has no reals: a coordinate is a dyadic        *)
(* fraction of the square size S, represented by its BIT PATH.  With       *)
(* u_0 = 1/2 and u_i = (c_i + u_{i-1}) / 2 the binary expansion of u_i is  *)
(* 0.c_i c_{i-1} ... c_1 1, so a point is the pair of sequences of corner  *)
(* bits of the bases read so far, newest first, followed by the 1 of the   *)
(* centre.  Corners: A=(0,0) C=(0,1) G=(1,1) T/U=(1,0) (times S).          *)
(***************************************************************************)
EXTENDS CompOps
CONSTANT MaxLen
VARIABLES inp,       \* classes consumed
          xs, ys,    \* bit paths of the current marker (newest first, trailing 1)
          pts,       \* points emitted so far, as <<xpath, ypath>>
          rejected   \* a non-nucleotide byte was met: the call returns Err, no coordinates
cvars == <<inp, xs, ys, pts, rejected>>

Init == inp = <<>> /\ xs = <<1>> /\ ys = <<1>> /\ pts = <<>> /\ rejected = FALSE

Step(c) ==
  /\ ~rejected /\ Len(inp) < MaxLen
  /\ inp' = Append(inp, c)
  /\ IF c = Ambig
     THEN rejected' = TRUE /\ UNCHANGED <<xs, ys, pts>>
     ELSE /\ xs' = <<CornerX(c)>> \o xs
          /\ ys' = <<CornerY(c)>> \o ys
          /\ pts' = Append(pts, <<xs', ys'>>)
          /\ UNCHANGED rejected
Next == \E c \in 0..4 : Step(c)
Spec == Init /\ [][Next]_cvars

-----------------------------------------------------------------------------
\* declarative: point i is determined by the first i bases only
PrefixDetermined == ~rejected =>
   /\ Len(pts) = Len(inp)
   /\ \A i \in 1..Len(pts) : pts[i] = <<PathOf(inp, i, CornerX), PathOf(inp, i, CornerY)>>
\* sub-square containment: the top j bits of point i are the corner bits of the last j bases
SubSquare == \A i \in 1..Len(pts) : \A j \in 1..i :
               /\ pts[i][1][j] = CornerX(inp[i + 1 - j])
               /\ pts[i][2][j] = CornerY(inp[i + 1 - j])
\* strictly inside the square: never 0 or S (the trailing 1)
Inside == \A i \in 1..Len(pts) : pts[i][1][i + 1] = 1 /\ pts[i][2][i + 1] = 1
RejectIffOther == rejected <=> (\E i \in 1..Len(inp) : inp[i] = Ambig)
=============================================================================

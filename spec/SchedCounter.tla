---------------------------- MODULE SchedCounter ----------------------------
(***************************************************************************)
(* Counter with a history variable recording the worker schedule; every    *)
(* complete behaviour of MCCounter!SchedCfg is printed for replay (B3).    *)
(***************************************************************************)
EXTENDS MCCounter
VARIABLE sched
Log(x) == sched' = Append(sched, x)
SInit == CInit /\ sched = <<>>
SNext == \/ \E w \in Workers : \/ CheckLimit(w, TRUE) /\ Log(<<w, "c">>)
                               \/ Take(w) /\ Log(<<w, "t">>)
                               \/ Count(w) /\ Log(<<w, "k">>)
                               \/ AddTotal(w) /\ Log(<<w, "a">>)
         \/ ChunkEnd /\ Log(<<0, "e">>)
         \* the merge is not scheduled (left free-running in the replay): one canonical order
         \/ (\E c \in 0..chunk : c = (IF mtodo = {} THEN 0 - 1 ELSE CHOOSE x \in mtodo : \A y \in mtodo : x <= y) /\ MergeRead(c) /\ UNCHANGED sched)
         \/ (\E c \in 0..chunk : MergeDelete(c) /\ UNCHANGED sched)
         \/ MergeWrite /\ UNCHANGED sched
         \/ Finish /\ UNCHANGED sched
SSpec == SInit /\ [][SNext]_<<cvars, sched>>
SchedOut == phase = "done" => PrintT(<<"SCHED", ToJson(sched)>>)
=============================================================================

SPECIFICATION BSpec
CONSTANTS
  FinalRule = "buffer_nonempty"
  BCfgSet <- Cfgs
INVARIANTS OrderInv DoneInv
PROPERTIES Terminates RefinesOrderedRows
CHECK_DEADLOCK FALSE

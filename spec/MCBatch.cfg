SPECIFICATION BSpec
CONSTANT BCfgSet <- Cfgs
INVARIANTS OrderInv DoneInv
PROPERTY Terminates
CHECK_DEADLOCK FALSE

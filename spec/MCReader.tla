------------------------------ MODULE MCReader ------------------------------
EXTENDS Reader, TLC, Json, IOUtils
NMax == atoi(IOEnv.VN)
Seqs == {<<>>, <<65>>, <<65, 67>>, <<65, 67, 71>>, <<65, 67, 71, 84, 65>>}
\* up to 2 records: 2 ids x description or not x 5 sequences; 3 records: a smaller record set keeps the space at ~20k scenarios
SeqsSmall == {<<>>, <<65>>, <<65, 67, 71>>}
\* desc: 0 = the header is the id alone, 1 = a description follows after a blank, 2 = after a tab ("id<TAB>tag"): the id is
\* the first word of the header line either way
RecSet == IF NMax <= 2 THEN {[id |-> i, desc |-> d, seq |-> s] : i \in 1..2, d \in 0..1, s \in Seqs}
                             \cup {[id |-> 1, desc |-> 2, seq |-> s] : s \in SeqsSmall}
          ELSE {[id |-> 1, desc |-> d, seq |-> s] : d \in 0..1, s \in SeqsSmall}
RecLists == UNION {[1..n -> RecSet] : n \in 0..NMax}
NLines(s) == Len(Serialise(s.recs, s.fastq, s.wrap))
Fasta == {[recs |-> r, fastq |-> FALSE, wrap |-> w, cut |-> c] : r \in RecLists, w \in 0..3, c \in 0..3}
\* FASTQ cannot hold a record without bases (bio rejects it)
Fastq == {[recs |-> r, fastq |-> TRUE, wrap |-> w, cut |-> c] :
            r \in {x \in RecLists : \A i \in 1..Len(x) : x[i].seq # <<>>}, w \in {0, 2}, c \in 0..3}
All == {s \in Fasta \cup Fastq : s.cut < NLines(s) \/ s.cut = 0}
Dec == "all_members"
DecFirst == "first_member"
\* one line per scenario, for replay against the real reader (B4)
ScenOut == mode = "done" => PrintT(<<"SCEN", ToJson(sc)>>)
=============================================================================

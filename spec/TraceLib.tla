------------------------------- MODULE TraceLib -------------------------------
(***************************************************************************)
(* Common part of every trace specification (binding B2).                  *)
(* The trace is an ndjson file named by the environment variable VTRACE;   *)
(* `l` is the index of the next event to be matched.  Acceptance: some     *)
(* behaviour of the trace spec consumes every line (highest l reached,     *)
(* kept in TLC register 1 from a CONSTRAINT; needs -workers 1).            *)
(***************************************************************************)
EXTENDS Naturals, Sequences, TLC, Json, IOUtils
VARIABLE l

Rec == ndJsonDeserialize(IOEnv.VTRACE)      \* (`Trace` would clash with TLCExt)
Ev == Rec[l]
Is(e) == l <= Len(Rec) /\ Rec[l].ev = e
Consume == l' = l + 1

TrackInit == TLCSet(1, 1)
Track == TLCSet(1, IF l > TLCGet(1) THEN l ELSE TLCGet(1))
\* every line consumed, and the file is complete (the recorders end every file with an eof event)
Accepted == \/ TLCGet(1) = Len(Rec) + 1 /\ Rec[Len(Rec)].ev = "eof"
            \/ /\ PrintT(<<"REJECTED", TLCGet(1)>>)
               /\ FALSE

\* low `k` digits of a 32-digit array, provided the digits above them are all zero
LowDigits(d32, k) == SubSeq(d32, 33 - k, 32)
HighZero(d32, k) == \A i \in 1..(32 - k) : d32[i] = 0
=============================================================================

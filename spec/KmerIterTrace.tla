---------------------------- MODULE KmerIterTrace ----------------------------
(***************************************************************************)
(* Trace validation of KmerGenerator runs (Rust core and Python binding).  *)
(* Events: kinit{k,bytes}  kemit{f,r,pos,len}  kend{f,r,pos,len}           *)
(* f, r are the returned / internal u64 as 32 base-4 digits; pos, len are   *)
(* the iterator's fields right after the call returned.  One kemit per     *)
(* next() that returned Some, one kend for the next() that returned None.  *)
(* Bytes consumed without an emission are silent Step actions.             *)
(***************************************************************************)
EXTENDS KmerIter, TraceLib
VARIABLES phase,    \* "idle" between runs, "run" inside one
          base      \* index of the kinit event of the current run
tvars == <<vars, l, phase, base>>

Bytes == Rec[base].bytes
NextClass == ClassOf(Bytes[Len(inp) + 1])

TInit == /\ TrackInit
         /\ l = 1 /\ phase = "idle" /\ base = 0
         /\ K = 1 /\ inp = <<>> /\ f = ZeroMer(1) /\ r = ZeroMer(1) /\ len = 0 /\ out = <<>>

\* registers and counters logged after a call must be the model's
\* (the Python binding exposes no internal state: every field is optional)
Has(fld) == fld \in DOMAIN Ev
StateMatches == /\ Has("pos") => Ev.pos = Len(inp)'
                /\ Has("len") => Ev.len = len'
                /\ Has("f") => HighZero(Ev.f, K) /\ LowDigits(Ev.f, K) = f'
                /\ Has("r") => HighZero(Ev.r, K) /\ LowDigits(Ev.r, K) = r'

TKInit == /\ Is("kinit") /\ phase = "idle"
          /\ Ev.k \in KSet
          /\ K' = Ev.k /\ inp' = <<>> /\ f' = ZeroMer(Ev.k) /\ r' = ZeroMer(Ev.k) /\ len' = 0 /\ out' = <<>>
          /\ phase' = "run" /\ base' = l /\ Consume

TSilent == /\ phase = "run" /\ Len(inp) < Len(Bytes)
           /\ Step(NextClass)
           /\ out' = out
           /\ UNCHANGED <<l, phase, base>>

TEmit == /\ Is("kemit") /\ phase = "run" /\ Len(inp) < Len(Bytes)
         /\ Step(NextClass)
         /\ Len(out') = Len(out) + 1
         /\ Has("f") /\ Has("r")
         /\ StateMatches
         /\ Consume /\ UNCHANGED <<phase, base>>

TEnd == /\ Is("kend") /\ phase = "run" /\ Len(inp) = Len(Bytes)
        /\ UNCHANGED vars
        /\ StateMatches
        /\ phase' = "idle" /\ Consume /\ UNCHANGED base

\* to_acgt(x) of the Python iterator object (between runs): the k letters of the code
LetterByte == <<65, 67, 71, 84>>
TAcgt == /\ Is("kacgt") /\ phase = "idle"
         /\ HighZero(Ev.x, Ev.k)
         /\ Ev.txt = [i \in 1..Ev.k |-> LetterByte[LowDigits(Ev.x, Ev.k)[i] + 1]]
         /\ Consume /\ UNCHANGED <<vars, phase, base>>

\* the harness closes every trace file with an eof event: a run cut short is rejected
TEof == /\ Is("eof") /\ phase = "idle" /\ Consume /\ UNCHANGED <<vars, phase, base>>

TNext == TKInit \/ TSilent \/ TEmit \/ TEnd \/ TAcgt \/ TEof
TSpec == TInit /\ [][TNext]_tvars

\* the full declarative characterisation once per run (at its end); cheap ones always
TraceInv == /\ PairRC /\ InRange
            /\ (phase = "run" => RegInv)
            /\ (phase = "idle" /\ base > 0 => OutIsWindows)
KAll == 1..31
BigLen == 1000000
Post == Accepted
=============================================================================

------------------------------- MODULE CompOps -------------------------------
(***************************************************************************)
(* Constant operators shared by the composition specifications (OligoVec,  *)
(* Cgr, OligoCgr) and by the stateless fact judge (FactsTrace).            *)
(***************************************************************************)
EXTENDS Nt

\* canonical k-mers in increasing code order; column p (0-based) is CanonList(k)[p+1]
CanonList(kk) == SelectSeq([i \in 1..Pow4(kk) |-> Digits(i - 1, kk)], IsCanon)

Abs(a, b) == IF a >= b THEN a - b ELSE b - a
\* A normalised value printed with 6 decimals, read as the integer v6 = value * 10^6, is the fraction cnt / tot correct to
\* 6 decimals (and 0 when there is no window at all):  |v6 * tot - cnt * 10^6| * 2 <= tot.
\* TLC integers are 32-bit, so the products are never formed: the six decimals of cnt / tot come from a long division
\* (remainders stay below 10 * tot), and v6 must be that quotient, or the next integer, whichever the remainder allows.
LongDiv6(cnt, tot) ==
  LET st[i \in 0..6] == IF i = 0 THEN <<cnt \div tot, cnt % tot>>
                        ELSE LET p == st[i-1] IN <<p[1] * 10 + (p[2] * 10) \div tot, (p[2] * 10) % tot>>
  IN st[6]                                    \* <<floor(cnt * 10^6 / tot), remainder>>
NormOk(v6, cnt, tot) ==
  IF tot = 0 THEN v6 = 0
  ELSE LET q == LongDiv6(cnt, tot) IN
       \/ v6 = q[1] /\ 2 * q[2] <= tot              \* rounded down: remainder at most half
       \/ v6 = q[1] + 1 /\ 2 * (tot - q[2]) <= tot  \* rounded up: missing part at most half

\* chaos game corners in units of the square size: A=(0,0) C=(0,1) G=(1,1) T/U=(1,0)
CornerX(c) == IF c \in {2, 3} THEN 1 ELSE 0
CornerY(c) == IF c \in {1, 2} THEN 1 ELSE 0
\* bit path (newest base first, then the 1 of the centre) of the point after the first i symbols of s
PathOf(s, i, cf(_)) == [j \in 1..(i + 1) |-> IF j = i + 1 THEN 1 ELSE cf(s[i + 1 - j])]
\* numerator of a bit path b over 2^Len(b)
Num(b) == LET v[i \in 0..Len(b)] == IF i = 0 THEN 0 ELSE 2 * v[i-1] + b[i] IN v[Len(b)]
=============================================================================

SPECIFICATION BSpec
CONSTANTS
  FinalRule = "total_positive"
  BCfgSet <- Cfgs
INVARIANTS OrderInv DoneInv
PROPERTIES Terminates RefinesOrderedRows
CHECK_DEADLOCK FALSE

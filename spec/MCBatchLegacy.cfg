SPECIFICATION BSpec
CONSTANTS
  FinalRule = "total_positive"
  BCfgSet <- Cfgs
INVARIANTS OrderInv DoneInv
PROPERTY Terminates
CHECK_DEADLOCK FALSE

------------------------------- MODULE Counter -------------------------------
(***************************************************************************)
(* counter::CountComputer - chunked, partitioned, concurrent k-mer         *)
(* counting followed by a merge (C07, C14, C17).                           *)
(*                                                                         *)
(* count(): repeat count_chunk until a chunk takes no record.              *)
(* count_chunk(): N workers loop { if total > limit: exit;  take the next  *)
(*   record under the reader's mutex (none: exit);  add each canonical     *)
(*   k-mer of the record to the concurrent map of partition                *)
(*   PartFn(kmer, nparts);  total += record length }.  If no record was    *)
(*   taken the chunk writes nothing, else one file per partition named by  *)
(*   (partition, chunk) is created (truncating).                           *)
(* merge(delete): create kmers.counts (truncating); for each partition in  *)
(*   turn, one task per chunk reads that chunk's file into a shared map    *)
(*   and deletes it if asked; then the map is appended to kmers.counts.    *)
(*                                                                         *)
(* One action per hook-delimited step of the code.  The per-k-mer update   *)
(* of the concurrent map (entry().and_modify().or_insert()) is taken to be *)
(* atomic: it has no hook between its halves (trusted base, see C07).      *)
(***************************************************************************)
EXTENDS Naturals, Sequences, FiniteSets
CONSTANTS CtrCfgs,         \* configurations: [recs, nparts, limit, nw, delete]
                           \*   recs: sequence of [len |-> Nat, kmers |-> Seq(Kmer)] (canonical k-mers of the record, in order)
          PartFn(_, _)     \* partition of a k-mer given the number of partitions
VARIABLES ccfg, phase, chunk, reader, total, nrecs, pc, held, table, temps, counts,
          mpart, mtodo, mread, mmap
cvars == <<ccfg, phase, chunk, reader, total, nrecs, pc, held, table, temps, counts, mpart, mtodo, mread, mmap>>

N == Len(ccfg.recs)
Workers == 1..ccfg.nw
Parts == 0..(ccfg.nparts - 1)
EmptyBag == <<>>                      \* a bag is a function kmer -> positive count

BagAdd(b, k, c) == IF k \in DOMAIN b THEN [b EXCEPT ![k] = @ + c]
                   ELSE [x \in (DOMAIN b) \cup {k} |-> IF x = k THEN c ELSE b[x]]
BagOfSeq(s) == LET f[i \in 0..Len(s)] == IF i = 0 THEN EmptyBag ELSE BagAdd(f[i-1], s[i], 1) IN f[Len(s)]
BagUnion(a, b) == [x \in (DOMAIN a) \cup (DOMAIN b) |->
                     (IF x \in DOMAIN a THEN a[x] ELSE 0) + (IF x \in DOMAIN b THEN b[x] ELSE 0)]
BagSize(b) == LET S == DOMAIN b
                  RECURSIVE Sum(_)
                  Sum(T) == IF T = {} THEN 0 ELSE LET x == CHOOSE y \in T : TRUE IN b[x] + Sum(T \ {x})
              IN Sum(S)
\* the part of bag b that belongs to partition p
BagPart(b, p) == [x \in {y \in DOMAIN b : PartFn(y, ccfg.nparts) = p} |-> b[x]]

EmptyTable == [p \in 0..(ccfg.nparts - 1) |-> EmptyBag]

CInitCfg(c) ==
  /\ ccfg = c /\ phase = "count" /\ chunk = 0 /\ reader = 0 /\ total = 0 /\ nrecs = 0
  /\ pc = [w \in 1..c.nw |-> "check"] /\ held = [w \in 1..c.nw |-> 0]
  /\ table = [p \in 0..(c.nparts - 1) |-> EmptyBag]
  /\ temps = EmptyBag /\ counts = EmptyBag
  /\ mpart = 0 /\ mtodo = {} /\ mread = {} /\ mmap = EmptyBag
CInit == \E c \in CtrCfgs : CInitCfg(c)
CReset(c) ==
  /\ ccfg' = c /\ phase' = "count" /\ chunk' = 0 /\ reader' = 0 /\ total' = 0 /\ nrecs' = 0
  /\ pc' = [w \in 1..c.nw |-> "check"] /\ held' = [w \in 1..c.nw |-> 0]
  /\ table' = [p \in 0..(c.nparts - 1) |-> EmptyBag]
  /\ temps' = EmptyBag /\ counts' = EmptyBag
  /\ mpart' = 0 /\ mtodo' = {} /\ mread' = {} /\ mmap' = EmptyBag

\* ---------------------------------------------------------------- counting
\* `exact`: the load sees the current total (always so under the controlled scheduler);
\* otherwise the relaxed load may be stale, i.e. a worker may go on although the limit is passed
CheckLimit(w, exact) ==
  /\ phase = "count" /\ pc[w] = "check"
  /\ \/ /\ total > ccfg.limit
        /\ pc' = [pc EXCEPT ![w] = "exit"]
     \/ /\ (exact => total <= ccfg.limit)
        /\ pc' = [pc EXCEPT ![w] = "take"]
  /\ UNCHANGED <<ccfg, phase, chunk, reader, total, nrecs, held, table, temps, counts, mpart, mtodo, mread, mmap>>

Take(w) ==
  /\ phase = "count" /\ pc[w] = "take"
  /\ IF reader < N
     THEN /\ held' = [held EXCEPT ![w] = reader]
          /\ reader' = reader + 1
          /\ nrecs' = nrecs + 1
          /\ pc' = [pc EXCEPT ![w] = "count"]
     ELSE /\ pc' = [pc EXCEPT ![w] = "exit"]
          /\ UNCHANGED <<held, reader, nrecs>>
  /\ UNCHANGED <<ccfg, phase, chunk, total, table, temps, counts, mpart, mtodo, mread, mmap>>

AddKmers(tb, ks) ==
  LET f[i \in 0..Len(ks)] ==
        IF i = 0 THEN tb
        ELSE LET t == f[i-1] IN [t EXCEPT ![PartFn(ks[i], ccfg.nparts)] = BagAdd(@, ks[i], 1)]
  IN f[Len(ks)]

Count(w) ==
  /\ phase = "count" /\ pc[w] = "count"
  /\ table' = AddKmers(table, ccfg.recs[held[w] + 1].kmers)
  /\ pc' = [pc EXCEPT ![w] = "add"]
  /\ UNCHANGED <<ccfg, phase, chunk, reader, total, nrecs, held, temps, counts, mpart, mtodo, mread, mmap>>

AddTotal(w) ==
  /\ phase = "count" /\ pc[w] = "add"
  /\ total' = total + ccfg.recs[held[w] + 1].len
  /\ pc' = [pc EXCEPT ![w] = "check"]
  /\ UNCHANGED <<ccfg, phase, chunk, reader, nrecs, held, table, temps, counts, mpart, mtodo, mread, mmap>>

\* all workers have left the scope
ChunkEnd ==
  /\ phase = "count" /\ \A w \in Workers : pc[w] = "exit"
  /\ IF nrecs = 0
     THEN \* nothing taken: no file is written, counting is over; merge() starts by creating kmers.counts
          /\ phase' = "merge" /\ counts' = EmptyBag
          /\ mpart' = 0 /\ mtodo' = 0..(chunk - 1) /\ mread' = {} /\ mmap' = EmptyBag
          /\ UNCHANGED <<chunk, total, nrecs, pc, table, temps>>
     ELSE \* one file per partition, named (partition, chunk); File::create truncates
          /\ temps' = [f \in (DOMAIN temps) \cup {<<p, chunk>> : p \in Parts} |->
                         IF f[2] = chunk THEN table[f[1]] ELSE temps[f]]
          /\ chunk' = chunk + 1 /\ total' = 0 /\ nrecs' = 0
          /\ pc' = [w \in Workers |-> "check"] /\ table' = EmptyTable
          /\ UNCHANGED <<phase, counts, mpart, mtodo, mread, mmap>>
  /\ UNCHANGED <<ccfg, reader, held>>

\* ------------------------------------------------------------------ merging
MergeRead(c) ==
  /\ phase = "merge" /\ mpart < ccfg.nparts /\ c \in mtodo
  /\ <<mpart, c>> \in DOMAIN temps
  /\ mmap' = BagUnion(mmap, temps[<<mpart, c>>])
  /\ mtodo' = mtodo \ {c} /\ mread' = mread \cup {c}
  /\ UNCHANGED <<ccfg, phase, chunk, reader, total, nrecs, pc, held, table, temps, counts, mpart>>

MergeDelete(c) ==
  /\ phase = "merge" /\ c \in mread
  /\ temps' = IF ccfg.delete THEN [f \in (DOMAIN temps) \ {<<mpart, c>>} |-> temps[f]] ELSE temps
  /\ mread' = mread \ {c}
  /\ UNCHANGED <<ccfg, phase, chunk, reader, total, nrecs, pc, held, table, counts, mpart, mtodo, mmap>>

MergeWrite ==
  /\ phase = "merge" /\ mpart < ccfg.nparts /\ mtodo = {} /\ mread = {}
  /\ counts' = BagUnion(counts, mmap)
  /\ mpart' = mpart + 1 /\ mtodo' = 0..(chunk - 1) /\ mmap' = EmptyBag
  /\ UNCHANGED <<ccfg, phase, chunk, reader, total, nrecs, pc, held, table, temps, mread>>

Finish ==
  /\ phase = "merge" /\ mpart = ccfg.nparts
  /\ phase' = "done"
  /\ UNCHANGED <<ccfg, chunk, reader, total, nrecs, pc, held, table, temps, counts, mpart, mtodo, mread, mmap>>

CNext == \/ \E w \in Workers : CheckLimit(w, TRUE) \/ Take(w) \/ Count(w) \/ AddTotal(w)
         \/ ChunkEnd \/ (\E c \in 0..chunk : MergeRead(c) \/ MergeDelete(c)) \/ MergeWrite \/ Finish
CSpec == CInit /\ [][CNext]_cvars /\ WF_cvars(CNext)

-----------------------------------------------------------------------------
AllKmers == LET f[i \in 0..N] == IF i = 0 THEN <<>> ELSE f[i-1] \o ccfg.recs[i].kmers IN f[N]
Expected == BagOfSeq(AllKmers)

\* C07: exactly one line per distinct canonical k-mer with its total number of occurrences
Exact == phase = "done" => counts = Expected
SumIsWindows == phase = "done" => BagSize(counts) = Len(AllKmers)
\* no temporary file survives a deleting merge; a non-deleting one leaves exactly this run's files
NoTempLeft == phase = "done" =>
                 IF ccfg.delete THEN DOMAIN temps = {}
                 ELSE DOMAIN temps = {<<p, c>> : p \in Parts, c \in 0..(chunk - 1)}
\* every k-mer sits in the partition PartFn says, in tables and in files (so it is merged exactly once)
PartitionInv == /\ \A p \in Parts : \A k \in DOMAIN table[p] : PartFn(k, ccfg.nparts) = p
                /\ \A f \in DOMAIN temps : \A k \in DOMAIN temps[f] : PartFn(k, ccfg.nparts) = f[1]
                /\ phase = "merge" => \A k \in DOMAIN mmap : PartFn(k, ccfg.nparts) = mpart
\* C14: the partition index is inside the table
PartIndex == \A i \in 1..N : \A j \in 1..Len(ccfg.recs[i].kmers) : PartFn(ccfg.recs[i].kmers[j], ccfg.nparts) \in Parts
\* nothing is lost at the limit: what the tables and files hold is what the counted records contain
CountedRecs == {i \in 0..(reader - 1) : \A w \in Workers : ~(pc[w] = "count" /\ held[w] = i)}
Conservation ==
  phase = "count" =>
    LET inFiles == LET fs == DOMAIN temps
                       RECURSIVE U(_)
                       U(S) == IF S = {} THEN EmptyBag ELSE LET x == CHOOSE y \in S : TRUE IN BagUnion(temps[x], U(S \ {x}))
                   IN U(fs)
        inTables == LET RECURSIVE T(_)
                        T(S) == IF S = {} THEN EmptyBag ELSE LET p == CHOOSE y \in S : TRUE IN BagUnion(table[p], T(S \ {p}))
                    IN T(Parts)
        want == LET RECURSIVE R(_)
                    R(S) == IF S = {} THEN EmptyBag ELSE LET i == CHOOSE y \in S : TRUE IN BagUnion(BagOfSeq(ccfg.recs[i + 1].kmers), R(S \ {i}))
                IN R(CountedRecs)
    IN BagUnion(inFiles, inTables) = want
\* progress: every chunk that continues takes at least one record; the run ends
Terminates == <>(phase = "done")
=============================================================================

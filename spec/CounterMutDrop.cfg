SPECIFICATION SpecDrop
CONSTANTS
  CtrCfgs <- AllCfgs
  PartFn <- Mod
INVARIANTS Exact Conservation
CHECK_DEADLOCK FALSE

---------------------------- MODULE MinimiserTrace ----------------------------
(***************************************************************************)
(* Trace validation of MinimiserGenerator / KmerMinimiserGenerator runs    *)
(* (Rust core; the plain one also through the Python binding).             *)
(* Events:                                                                 *)
(*   minit{w,m,kv,bytes}    construction (kv: the k-mer reporting variant) *)
(*   mrun{v,s,e,kmers,st}   a next() that returned Some                    *)
(*   mend{st}               the next() that returned None                  *)
(* v and the k-mers are 32 base-4 digits of the returned u64; st is the    *)
(* iterator's internal state right after the call (feature-gated           *)
(* verif_state()), absent for the Python binding.                          *)
(***************************************************************************)
EXTENDS Minimiser, TraceLib
VARIABLES phase, base
tvars == <<vars, l, phase, base>>

Bytes == Rec[base].bytes
KV == Rec[base].kv
NextClass == ClassOf(Bytes[pos + 1])

TInit == /\ TrackInit /\ l = 1 /\ phase = "idle" /\ base = 0 /\ InitWM(1, 1)

\* a logged 32-digit word equals a model digit sequence of length n
Word(d32, x, n) == HighZero(d32, n) /\ LowDigits(d32, n) = x

\* internal state logged after the call = model state after the action
StMatches ==
  "st" \in DOMAIN Ev =>
    LET st == Ev.st IN
    /\ st.pos = Len(inp')
    /\ st.ml = ml'
    /\ st.bl = Len(buff')
    /\ st.bpos = bpos'
    /\ st.wstart = wstart'
    /\ IF st.open = 1 THEN active' # NoRun /\ Word(st.active, active', M)
       ELSE active' = NoRun /\ \A i \in 1..32 : st.active[i] = 3      \* u64::MAX
    /\ ("mf" \in DOMAIN st => Word(st.mf, mf', M) /\ Word(st.mr, mr', M))
    /\ ("kl" \in DOMAIN st => st.kl = kl' /\ Word(st.kf, kf', W) /\ Word(st.kr, kr', W))

\* the returned item is the run the model just emitted
RunMatches ==
  /\ Len(out') = Len(out) + 1
  /\ LET run == out'[Len(out')] IN
     /\ run[1] # NoRun /\ Ev.open = 1 /\ Word(Ev.v, run[1], M)
     /\ Ev.s = run[2] /\ Ev.e = run[3]
     /\ KV = 1 => /\ Len(Ev.kmers) = Len(run[4])
                  /\ \A i \in 1..Len(run[4]) : Word(Ev.kmers[i], run[4][i], W)

TMInit == /\ Is("minit") /\ phase = "idle"
          /\ Ev.m >= 1 /\ Ev.w >= Ev.m
          /\ ResetWM(Ev.w, Ev.m)
          /\ phase' = "run" /\ base' = l /\ Consume

TSilent == /\ phase = "run" /\ pos < Len(Bytes)
           /\ Step(NextClass) /\ out' = out
           /\ UNCHANGED <<l, phase, base>>

TRun == /\ Is("mrun") /\ phase = "run" /\ pos < Len(Bytes)
        /\ Step(NextClass) /\ RunMatches /\ StMatches
        /\ Consume /\ UNCHANGED <<phase, base>>

\* input exhausted with a run still open: the call flushes it ...
TFlush == /\ Is("mrun") /\ phase = "run" /\ pos = Len(Bytes) /\ ~ended
          /\ End /\ RunMatches /\ StMatches
          /\ Consume /\ UNCHANGED <<phase, base>>

\* ... and None is returned only when nothing is open
TEnd == /\ Is("mend") /\ phase = "run" /\ pos = Len(Bytes)
        /\ IF ended THEN UNCHANGED vars ELSE End /\ out' = out
        /\ StMatches
        /\ phase' = "idle" /\ Consume /\ UNCHANGED base

\* to_acgt(x) of the Python iterator object (between runs): the m letters of the code
LetterByte == <<65, 67, 71, 84>>
TAcgt == /\ Is("macgt") /\ phase = "idle"
         /\ HighZero(Ev.x, Ev.m)
         /\ Ev.txt = [i \in 1..Ev.m |-> LetterByte[LowDigits(Ev.x, Ev.m)[i] + 1]]
         /\ Consume /\ UNCHANGED <<vars, phase, base>>

TEof == /\ Is("eof") /\ phase = "idle" /\ Consume /\ UNCHANGED <<vars, phase, base>>

TNext == TMInit \/ TSilent \/ TRun \/ TFlush \/ TEnd \/ TAcgt \/ TEof
TSpec == TInit /\ [][TNext]_tvars

\* declarative characterisation once per run, at its end
TraceInv == /\ NoSentinel
            /\ (phase = "idle" /\ base > 0 => PrefixInv /\ KConcat)
AnyWM == {<<1, 1>>}
BigLen == 1000000
Post == Accepted
=============================================================================

SPECIFICATION Spec
INVARIANT RleAgrees
CHECK_DEADLOCK FALSE

SPECIFICATION Spec
CONSTANT KSet <- KEnv
INVARIANTS RankBound Final Conforms HeaderConforms
CHECK_DEADLOCK FALSE

SPECIFICATION Spec
CONSTANT KSet <- KEnv
INVARIANTS RankBound Final Conforms
CHECK_DEADLOCK FALSE

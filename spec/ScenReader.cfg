SPECIFICATION RSpec
CONSTANTS
  Scenarios <- All
  Decoder <- Dec
INVARIANTS ScenOut RoundTrip
CHECK_DEADLOCK FALSE

SPECIFICATION TSpec
CONSTANTS
  RunSet <- AnyRuns
  MaxHist <- Big
INVARIANT TraceInv
CONSTRAINT Track
POSTCONDITION Post
CHECK_DEADLOCK FALSE

SPECIFICATION TSpec
CONSTANTS
  Scenarios <- AnySc
  Decoder <- Dec
INVARIANT TraceInv
CONSTRAINT Track
POSTCONDITION Post
CHECK_DEADLOCK FALSE

SPECIFICATION TSpec
CONSTANTS
  WMSet <- AnyWM
  MaxLen <- BigLen
INVARIANT TraceInv
CONSTRAINT Track
POSTCONDITION Post
CHECK_DEADLOCK FALSE

SPECIFICATION Spec
CONSTANT KSet <- KEnvAll
INVARIANTS RankBound Final Conforms
CHECK_DEADLOCK FALSE

SPECIFICATION Spec
CONSTANT KSet <- KEnvAll
INVARIANTS RankBound Final Conforms HeaderConforms
CHECK_DEADLOCK FALSE

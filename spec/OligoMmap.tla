------------------------------ MODULE OligoMmap ------------------------------
(***************************************************************************)
(* composition::oligo::OligoComputer::vectorise_mmap - the memory-mapped   *)
(* writer (C05, C14).  A statistics pass sizes the output file; the header *)
(* is written at offset 0; N workers then repeatedly take the next record  *)
(* from the shared reader (atomic under its mutex: Take) and write the     *)
(* record's row at the offset computed from the record's ordinal           *)
(* (WriteRow).  Rows have a fixed length because every value is printed    *)
(* with NumLen = 8 characters.                                             *)
(*                                                                         *)
(* One action per critical section / hook-delimited step:                  *)
(*   Plan, WriteHeader, Take(w), WriteRow(w)                               *)
(***************************************************************************)
EXTENDS Naturals, Sequences, FiniteSets
CONSTANTS LegacyPlan,  \* FALSE: the repaired size rule. TRUE: the pinned tree's rule kc * (NumLen + 1), which ignores the
                       \* delimiter length (finding F6) - kept only to show that InBounds / Tiling detect it at design level
          CfgSet    \* configurations explored: [n, kc, dl, hdr, ksz, nw]
                    \*   n records, kc columns, delimiter length dl, header on/off,
                    \*   k (letters per column name), nw workers
VARIABLES cfg, phase, cap, reader, pc, held, writes, sched
mvars == <<cfg, phase, cap, reader, pc, held, writes, sched>>

NumLen == 8
Workers == 1..cfg.nw
RowLen == cfg.kc * NumLen + (cfg.kc - 1) * cfg.dl + 1
HdrLen == IF cfg.hdr THEN cfg.kc * cfg.ksz + (cfg.kc - 1) * cfg.dl + 1 ELSE 0

InitCfg(c) ==
  /\ cfg = c /\ phase = "plan" /\ cap = 0 /\ reader = 0
  /\ pc = [w \in 1..c.nw |-> "take"] /\ held = [w \in 1..c.nw |-> 0]
  /\ writes = {} /\ sched = <<>>
Init == \E c \in CfgSet : InitCfg(c)
\* the same as an action (several runs in one trace file)
Reset(c) ==
  /\ cfg' = c /\ phase' = "plan" /\ cap' = 0 /\ reader' = 0
  /\ pc' = [w \in 1..c.nw |-> "take"] /\ held' = [w \in 1..c.nw |-> 0]
  /\ writes' = {} /\ sched' = <<>>

\* statistics pass + mmap_file_for_writing(size): truncate and set the length
Plan == /\ phase = "plan"
        /\ cap' = cfg.n * (IF LegacyPlan THEN cfg.kc * (NumLen + 1) ELSE RowLen) + HdrLen
        /\ phase' = "hdr"
        /\ UNCHANGED <<cfg, reader, pc, held, writes, sched>>

WriteHeader == /\ phase = "hdr"
               /\ writes' = IF cfg.hdr THEN {[off |-> 0, len |-> HdrLen, n |-> 0 - 1]} ELSE {}
               /\ phase' = "work"
               /\ UNCHANGED <<cfg, cap, reader, pc, held, sched>>

\* records_arc.lock().next(): the ordinal is assigned under the reader's mutex
Take(w) == /\ phase = "work" /\ pc[w] = "take"
           /\ IF reader < cfg.n
              THEN /\ held' = [held EXCEPT ![w] = reader]
                   /\ reader' = reader + 1
                   /\ pc' = [pc EXCEPT ![w] = "write"]
              ELSE /\ pc' = [pc EXCEPT ![w] = "exit"]
                   /\ UNCHANGED <<held, reader>>
           /\ sched' = Append(sched, <<w, "t">>)
           /\ UNCHANGED <<cfg, phase, cap, writes>>

\* write_at(row, header_len + row.len() * record.n)
WriteRow(w) == /\ phase = "work" /\ pc[w] = "write"
               /\ writes' = writes \cup {[off |-> HdrLen + RowLen * held[w], len |-> RowLen, n |-> held[w]]}
               /\ pc' = [pc EXCEPT ![w] = "take"]
               /\ sched' = Append(sched, <<w, "w">>)
               /\ UNCHANGED <<cfg, phase, cap, reader, held>>

Next == Plan \/ WriteHeader \/ \E w \in Workers : Take(w) \/ WriteRow(w)
Spec == Init /\ [][Next]_mvars /\ WF_mvars(Next)

Done == phase = "work" /\ \A w \in Workers : pc[w] = "exit"

-----------------------------------------------------------------------------
\* C14: every write lies wholly inside the mapping (the precondition of the raw copy)
InBounds == \A x \in writes : x.off + x.len <= cap
\* rows of different records never overlap
Disjoint == \A x, y \in writes : x # y => (x.off + x.len <= y.off \/ y.off + y.len <= x.off)
\* at the end the writes tile the file exactly: no byte left unwritten, size = header + records * row
Covered == UNION {x.off..(x.off + x.len - 1) : x \in writes}
Tiling == Done => /\ Covered = 0..(cap - 1)
                  /\ cap = HdrLen + cfg.n * RowLen
\* the same fact without building the byte set (used on traces of large files): given InBounds and Disjoint, the writes tile
\* the file exactly when their lengths add up to its size; CoveredIffTotal is checked by TLC on the small configurations
TotalLen == (IF \E x \in writes : x.n < 0 THEN HdrLen ELSE 0) + RowLen * Cardinality({x \in writes : x.n >= 0})
CoveredIffTotal == (InBounds /\ Disjoint) => ((Covered = 0..(cap - 1)) <=> (TotalLen = cap))
\* C05: the row of record n sits at position n whatever the interleaving
RowOrder == \A x \in writes : x.n >= 0 => x.off = HdrLen + RowLen * x.n
EachOnce == Done => \A i \in 0..(cfg.n - 1) : Cardinality({x \in writes : x.n = i}) = 1
\* nobody holds a record twice / records are handed out in order without gaps
\* every run ends: all workers leave once the reader is exhausted
Terminates == <>Done
HeldDistinct == \A v, w \in Workers : (v # w /\ pc[v] = "write" /\ pc[w] = "write") => held[v] # held[w]
=============================================================================

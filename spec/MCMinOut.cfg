SPECIFICATION MSpec
CONSTANT MoCfgs <- Cfgs
INVARIANTS OneLinePerRecord Inversion
PROPERTY Terminates
CHECK_DEADLOCK FALSE

------------------------------- MODULE MCBatch -------------------------------
EXTENDS Batch, TLC
\* record lengths from {0, 1, 3}, up to 4 records, thresholds 1, 2, 4, 100
LenSeqs == UNION {[1..n -> {0, 1, 3}] : n \in 0..4}
\* refinement: the batch loop implements OrderedRows (rows are visible to the abstract level only when the loop is over)
Abs == INSTANCE OrderedRows WITH n <- N, rows <- IF fin THEN rows ELSE <<>>, complete <- fin
RefinesOrderedRows == Abs!Spec
Cfgs == {[lens |-> s, mem |-> m] : s \in LenSeqs, m \in {1, 2, 4, 100}}
=============================================================================

----------------------------- MODULE CounterTrace -----------------------------
(***************************************************************************)
(* Trace validation of CountComputer::count(); merge(delete) recorded      *)
(* through the hooks (free-running or under a replayed schedule).          *)
(*   reset{mode,k,recs,nw,nparts,limit,delete}  configuration of the run;  *)
(*        recs = the records' bytes; nparts and limit are the values the   *)
(*        run itself reported (ctr.init / ctr.limit_obs)                   *)
(*   ctr.* / seq.take*     hook events, t = worker (task) number           *)
(*   listing{temps}        temp files left in the directory                *)
(*   counts{lines}         decoded kmers.counts: <<k-mer digits, count>>   *)
(* In mode "sched" exactly one worker runs at a time, so the relaxed load  *)
(* of the limit check is exact; in mode "free" it may be stale.            *)
(***************************************************************************)
EXTENDS Counter, Nt, TraceLib
VARIABLES started, mode, flushed, finals
tvars == <<cvars, l, started, mode, flushed, finals>>

\* partition of a k-mer given as base-4 digits: its numeric code modulo n, computed digit by digit
ModDigits(d, n) == LET m[i \in 0..Len(d)] == IF i = 0 THEN 0 ELSE (4 * m[i-1] + d[i]) % n IN m[Len(d)]

NoCfg == [recs |-> <<>>, nparts |-> 1, limit |-> 0, nw |-> 1, delete |-> TRUE]
TInit == TrackInit /\ l = 1 /\ started = FALSE /\ mode = "free" /\ flushed = {} /\ finals = {} /\ CInitCfg(NoCfg)
\* a run is complete when its directory listing and its decoded counts file have both been judged
RunComplete == ~started \/ (phase = "done" /\ finals = {"listing", "counts"})

A(i) == Ev.a[i]
W == ((Ev.t - 1) % ccfg.nw) + 1           \* tasks are numbered 1.. across the chunks' worker pools
IsExact == mode = "sched"
Skip == Consume /\ UNCHANGED <<cvars, started, mode, flushed, finals>>
Keep == UNCHANGED <<started, mode, flushed, finals>>

CfgOf(e) == [recs |-> [i \in 1..Len(e.recs) |->
                         [len |-> Len(e.recs[i]), kmers |-> CanonWindows(Classes(e.recs[i]), e.k)]],
             nparts |-> e.nparts, limit |-> e.limit, nw |-> e.nw, delete |-> (e.delete = 1)]

TReset == /\ Is("reset") /\ RunComplete
          /\ Ev.nw >= 1 /\ Ev.nparts >= 1
          /\ (\E c \in {CfgOf(Ev)} : CReset(c))     \* (bound once: TLC re-evaluates plain operator arguments in actions)
          /\ started' = TRUE /\ mode' = Ev.mode /\ flushed' = {} /\ finals' = {} /\ Consume

TCtrInit == Is("ctr.init") /\ started /\ A(1) = ccfg.nparts /\ A(2) = N /\ A(4) = ccfg.nw /\ Skip
TChunkBegin == Is("ctr.chunk_begin") /\ phase = "count" /\ A(1) = chunk /\ (\A w \in Workers : pc[w] = "check") /\ Skip
TStart == Is("ctr.worker_start") /\ phase = "count" /\ pc[W] = "check" /\ Skip
TBefCheck == Is("ctr.before_limit_check") /\ phase = "count" /\ pc[W] = "check" /\ Skip
\* WHEN a worker decides to leave on the memory limit is not part of any property (results must be the same however
\* the work is chunked), so the trace specification accepts either outcome of the check at any time; the threshold rule of
\* Counter!CheckLimit is model-checked on the specification (MCCounter) and drives the schedule generation only
TObs == Is("ctr.limit_obs") /\ pc[W] = "check" /\ Skip
LeaveOrGo(w, to) == /\ phase = "count" /\ pc[w] = "check" /\ pc' = [pc EXCEPT ![w] = to]
                    /\ UNCHANGED <<ccfg, phase, chunk, reader, total, nrecs, held, table, temps, counts, mpart, mtodo, mread, mmap>>
TExitLimit == Is("ctr.worker_exit_limit") /\ LeaveOrGo(W, "exit") /\ Consume /\ Keep
TBefTake == Is("ctr.before_take") /\ LeaveOrGo(W, "take") /\ Consume /\ Keep
TTake == /\ Is("seq.take") /\ reader < N /\ Take(W) /\ held'[W] = A(1) /\ A(2) = ccfg.recs[A(1) + 1].len
         /\ Consume /\ Keep
TTakeNone == Is("seq.take_none") /\ reader = N /\ Take(W) /\ Consume /\ Keep
TAftTake == Is("ctr.after_take") /\ pc[W] = "count" /\ held[W] = A(1) /\ Skip
\* C14: partition index of every k-mer of the record inside the table
TCounted == /\ Is("ctr.counted") /\ pc[W] = "count" /\ held[W] = A(1)
            /\ A(2) = Len(ccfg.recs[A(1) + 1].kmers) /\ A(3) <= A(4) /\ A(4) = ccfg.nparts
            /\ Count(W) /\ Consume /\ Keep
\* free-running: AddTotal is applied at before_add_total (logged before the fetch_add, so the model's total is never
\* behind the real one); under the scheduler the worker may be parked between the two events, so it is applied at
\* after_add_total, where the fetch_add has really happened
TBefAdd == /\ Is("ctr.before_add_total") /\ pc[W] = "add" /\ held[W] = A(1) /\ A(2) = ccfg.recs[A(1) + 1].len
           /\ IF IsExact THEN UNCHANGED cvars ELSE AddTotal(W)
           /\ Consume /\ Keep
TAftAdd == /\ Is("ctr.after_add_total")
           /\ IF IsExact THEN pc[W] = "add" /\ held[W] = A(1) /\ AddTotal(W) ELSE UNCHANGED cvars
           /\ Consume /\ Keep
TExit == Is("ctr.worker_exit") /\ pc[W] = "exit" /\ Skip
\* one file per partition with as many lines as the partition's table has keys
TPartFlush == /\ Is("ctr.part_flush") /\ phase = "count" /\ (\A w \in Workers : pc[w] = "exit") /\ nrecs > 0
              /\ A(1) \in Parts /\ A(1) \notin flushed /\ A(2) = chunk
              /\ A(3) = Cardinality(DOMAIN table[A(1)])
              /\ flushed' = flushed \cup {A(1)}
              /\ Consume /\ UNCHANGED <<cvars, started, mode, finals>>
TChunkEnd == /\ Is("ctr.chunk_end") /\ A(1) = chunk /\ A(2) = nrecs
             /\ (nrecs > 0 => flushed = Parts) /\ (nrecs = 0 => flushed = {})
             /\ ChunkEnd /\ flushed' = {}
             /\ Consume /\ UNCHANGED <<started, mode, finals>>
TMergeBegin == Is("ctr.merge_begin") /\ phase = "merge" /\ mpart = 0 /\ A(1) = ccfg.nparts /\ A(2) = chunk
               /\ A(3) = (IF ccfg.delete THEN 1 ELSE 0) /\ Skip
TMBefRead == Is("ctr.merge_before_read") /\ phase = "merge" /\ A(1) = mpart /\ A(2) \in mtodo /\ Skip
TMRead == /\ Is("ctr.merge_read") /\ A(1) = mpart /\ MergeRead(A(2))
          /\ A(3) = Cardinality(DOMAIN temps[<<A(1), A(2)>>])
          /\ Consume /\ Keep
TMBefDel == Is("ctr.merge_before_delete") /\ A(1) = mpart /\ A(2) \in mread /\ Skip
TMDone == Is("ctr.merge_task_done") /\ A(1) = mpart /\ MergeDelete(A(2)) /\ Consume /\ Keep
TMPart == /\ Is("ctr.merge_part_done") /\ A(1) = mpart /\ A(2) = Cardinality(DOMAIN mmap)
          /\ MergeWrite /\ Consume /\ Keep
TFinish == phase = "merge" /\ Finish /\ UNCHANGED <<l, started, mode, flushed, finals>>
\* what is left in the output directory, and the decoded counts file
TListing == /\ Is("listing") /\ phase = "done"
            /\ {<<Ev.temps[i][1], Ev.temps[i][2]>> : i \in 1..Len(Ev.temps)} = DOMAIN temps
            /\ finals' = finals \cup {"listing"} /\ Consume /\ UNCHANGED <<cvars, started, mode, flushed>>
TCounts == /\ Is("counts") /\ phase = "done"
           /\ Len(Ev.lines) = Cardinality(DOMAIN counts)
           /\ \A i \in 1..Len(Ev.lines) :
                LET d == LowDigits(Ev.lines[i][1], Ev.k) IN
                /\ HighZero(Ev.lines[i][1], Ev.k)
                /\ d \in DOMAIN counts /\ counts[d] = Ev.lines[i][2]
           /\ finals' = finals \cup {"counts"} /\ Consume /\ UNCHANGED <<cvars, started, mode, flushed>>
TEof == Is("eof") /\ RunComplete /\ Skip

TNext == \/ TReset \/ TCtrInit \/ TChunkBegin \/ TStart \/ TBefCheck \/ TObs \/ TExitLimit \/ TBefTake \/ TTake
         \/ TTakeNone \/ TAftTake \/ TCounted \/ TBefAdd \/ TAftAdd \/ TExit \/ TPartFlush \/ TChunkEnd
         \/ TMergeBegin \/ TMBefRead \/ TMRead \/ TMBefDel \/ TMDone \/ TMPart \/ TFinish
         \/ TListing \/ TCounts \/ TEof
TSpec == TInit /\ [][TNext]_tvars
\* the counts file is exact, nothing temporary is left (evaluated when a run is done)
TraceInv == Exact /\ NoTempLeft
Post == Accepted
AnyCfg == {NoCfg}
=============================================================================

SPECIFICATION MCSpec
CONSTANTS
  KSet <- KEnv
  MaxLen <- LEnv
INVARIANTS VecIsCount TotalIsWindows IndexInRange RCInvariant
CHECK_DEADLOCK FALSE

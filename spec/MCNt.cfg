SPECIFICATION Spec
INVARIANTS LoopIsRC Involution RCIsTextRC DecodeInverse CanonIdem Conforms
CHECK_DEADLOCK FALSE

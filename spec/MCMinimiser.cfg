SPECIFICATION MCSpec
CONSTANTS
  WMSet <- WMEnv
  MaxLen <- LEnv
INVARIANTS PrefixInv NoSentinel KConcat RingInv Conforms ConformsK
CHECK_DEADLOCK FALSE

--------------------------- MODULE OligoMmapTrace ---------------------------
(***************************************************************************)
(* Trace validation of vectorise_mmap runs recorded through the hooks      *)
(* (free-running, or replaying a TLC-generated schedule through the        *)
(* controlled scheduler).  Events carry t = worker (task) number and       *)
(* a = the hook's arguments.                                               *)
(*   reset{n,kc,dl,hdr,ksz,nw}      start of a run (configuration)         *)
(*   oligo.mmap_plan a=<<per_line, hdr_len, size>>                          *)
(*   mm.write        a=<<pos, len, capacity>>     every write_at           *)
(*   seq.take a=<<n, len>> / seq.take_none         inside the reader lock   *)
(*   oligo.worker_start / before_take / after_take<<n>> /                   *)
(*   oligo.before_write<<n, off, len>> / after_write<<n>> / worker_exit     *)
(*   oligo.idx a=<<max_code+1, pos_map_len, max_col+1, vec_len, windows>>   *)
(*   file{size,nul,lines}  row{i,rec}              decoded output file      *)
(***************************************************************************)
EXTENDS OligoMmap, TraceLib
VARIABLES started,    \* a run is in progress
          rowsSeen,   \* decoded rows of the output file consumed so far (-1: file event not yet seen)
          norows      \* this run's records are arbitrary (not ordinal-coded): no row events follow the file event
tvars == <<mvars, l, started, rowsSeen, norows>>

NoCfg == [n |-> 0, kc |-> 1, dl |-> 1, hdr |-> FALSE, ksz |-> 1, nw |-> 1]
TInit == TrackInit /\ l = 1 /\ started = FALSE /\ rowsSeen = 0 /\ norows = FALSE /\ InitCfg(NoCfg)

A(i) == Ev.a[i]
W == Ev.t
IsWorker == W \in Workers
Skip == Consume /\ UNCHANGED <<mvars, started, rowsSeen, norows>>
RunComplete == ~started \/ (Done /\ rowsSeen = cfg.n)       \* the previous run's file and all its rows have been seen

TReset == /\ Is("reset") /\ RunComplete
          /\ Ev.nw >= 1 /\ Ev.kc >= 1
          /\ Reset([n |-> Ev.n, kc |-> Ev.kc, dl |-> Ev.dl, hdr |-> (Ev.hdr = 1), ksz |-> Ev.ksz, nw |-> Ev.nw])
          /\ started' = TRUE /\ rowsSeen' = 0 - 1 /\ norows' = (Ev.norows = 1) /\ Consume

TPlan == /\ Is("oligo.mmap_plan") /\ started /\ Plan
         /\ A(1) = RowLen /\ A(2) = HdrLen /\ A(3) = cap'
         /\ Consume /\ UNCHANGED <<started, rowsSeen, norows>>

\* the header write, or nothing at all when no header was asked for
THeader == /\ Is("mm.write") /\ phase = "hdr" /\ cfg.hdr /\ WriteHeader
           /\ A(1) = 0 /\ A(2) = HdrLen /\ A(3) = cap
           /\ Consume /\ UNCHANGED <<started, rowsSeen, norows>>
TNoHeader == /\ phase = "hdr" /\ ~cfg.hdr /\ WriteHeader /\ UNCHANGED <<l, started, rowsSeen, norows>>

TStart == Is("oligo.worker_start") /\ phase = "work" /\ IsWorker /\ pc[W] = "take" /\ Skip
TBefTake == Is("oligo.before_take") /\ phase = "work" /\ IsWorker /\ pc[W] = "take" /\ Skip
TTake == /\ Is("seq.take") /\ IsWorker /\ reader < cfg.n /\ Take(W)
         /\ held'[W] = A(1)
         /\ Consume /\ UNCHANGED <<started, rowsSeen, norows>>
TTakeNone == /\ Is("seq.take_none") /\ IsWorker /\ reader = cfg.n /\ Take(W)
             /\ Consume /\ UNCHANGED <<started, rowsSeen, norows>>
TAftTake == Is("oligo.after_take") /\ IsWorker /\ pc[W] = "write" /\ held[W] = A(1) /\ Skip
\* C14: the largest code and column used for this record lie inside their tables
TIdx == Is("oligo.idx") /\ A(1) <= A(2) /\ A(3) <= A(4) /\ A(4) = cfg.kc /\ Skip
TBefWrite == /\ Is("oligo.before_write") /\ IsWorker /\ pc[W] = "write"
             /\ A(1) = held[W] /\ A(2) = HdrLen + RowLen * held[W] /\ A(3) = RowLen
             /\ Skip
TWrite == /\ Is("mm.write") /\ phase = "work" /\ IsWorker /\ pc[W] = "write"
          /\ A(1) = HdrLen + RowLen * held[W] /\ A(2) = RowLen /\ A(3) = cap
          \* in bounds, and disjoint from everything written before (checked incrementally)
          /\ A(1) + A(2) <= cap
          /\ \A x \in writes : x.off + x.len <= A(1) \/ A(1) + A(2) <= x.off
          /\ WriteRow(W)
          /\ Consume /\ UNCHANGED <<started, rowsSeen, norows>>
TAftWrite == Is("oligo.after_write") /\ IsWorker /\ pc[W] = "take" /\ Skip
TExit == Is("oligo.worker_exit") /\ IsWorker /\ pc[W] = "exit" /\ Skip

\* decoded output: size, no NUL byte left, one line per record (+ header), row i belongs to record i
TFile == /\ Is("file") /\ Done /\ rowsSeen = 0 - 1
         /\ Ev.size = cap /\ Ev.nul = 0 /\ Ev.lines = cfg.n + (IF cfg.hdr THEN 1 ELSE 0)
         /\ TotalLen = cap /\ cap = HdrLen + cfg.n * RowLen
         /\ rowsSeen' = (IF norows THEN cfg.n ELSE 0) /\ Consume /\ UNCHANGED <<mvars, started, norows>>
\* rows come in file order: row i is the i-th decoded line and belongs to record i
TRow == /\ Is("row") /\ Done /\ Ev.i = rowsSeen /\ Ev.rec = Ev.i /\ Ev.i \in 0..(cfg.n - 1)
        /\ ~norows /\ rowsSeen' = rowsSeen + 1 /\ Consume /\ UNCHANGED <<mvars, started, norows>>
TEof == Is("eof") /\ RunComplete /\ Skip

TNext == \/ TReset \/ TPlan \/ THeader \/ TNoHeader \/ TStart \/ TBefTake \/ TTake \/ TTakeNone \/ TAftTake
         \/ TIdx \/ TBefWrite \/ TWrite \/ TAftWrite \/ TExit \/ TFile \/ TRow \/ TEof
TSpec == TInit /\ [][TNext]_tvars
TraceInv == RowOrder /\ HeldDistinct
Post == Accepted
AnyCfg == {NoCfg}
=============================================================================

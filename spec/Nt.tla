--------------------------------- MODULE Nt ---------------------------------
(***************************************************************************)
(* Nucleotide algebra shared by every other module.                        *)
(*                                                                         *)
(* A k-mer is a SEQUENCE OF BASE-4 DIGITS (most significant first), never  *)
(* a number: TLC integers are 32-bit and k goes to 31.  Lexicographic      *)
(* order on equal-length digit sequences coincides with the numeric order  *)
(* of the 2-bit code used by the implementation.  Input bytes are mapped   *)
(* to classes 0..3 (A C G T/U, either case) and 4 (anything else).         *)
(***************************************************************************)
EXTENDS Naturals, Sequences

Ambig == 4

\* byte value -> class.  Bytes 0..3 are outside every property (the lookup
\* table inherited from minimap2 treats them as pre-encoded bases).
ClassOf(b) ==
  CASE b \in {65, 97}            -> 0
    [] b \in {67, 99}            -> 1
    [] b \in {71, 103}           -> 2
    [] b \in {84, 116, 85, 117}  -> 3
    [] OTHER                     -> 4

Classes(bytes) == [i \in 1..Len(bytes) |-> ClassOf(bytes[i])]

\* ---------------------------------------------------------------- order
LexLess(a, b) == \E i \in 1..Len(a) : /\ a[i] < b[i]
                                      /\ \A j \in 1..(i-1) : a[j] = b[j]
LexLeq(a, b)  == a = b \/ LexLess(a, b)
LexMin(a, b)  == IF LexLess(b, a) THEN b ELSE a

\* ------------------------------------------------- reverse complement
RC(d)      == [i \in 1..Len(d) |-> 3 - d[Len(d) + 1 - i]]
Canon(d)   == LexMin(d, RC(d))
IsCanon(d) == LexLeq(d, RC(d))

\* reverse complement of a class sequence (ambiguous stays ambiguous)
RCs(s) == [i \in 1..Len(s) |-> IF s[Len(s) + 1 - i] = 4 THEN 4 ELSE 3 - s[Len(s) + 1 - i]]

Rev(s) == [i \in 1..Len(s) |-> s[Len(s) + 1 - i]]

\* ---------------------------------------------- numeric view (k <= 15)
Pow4(k) == LET p[i \in 0..k] == IF i = 0 THEN 1 ELSE 4 * p[i-1] IN p[k]

Code(d) == LET c[i \in 0..Len(d)] == IF i = 0 THEN 0 ELSE 4 * c[i-1] + d[i]
           IN c[Len(d)]

\* digits of x, k of them, most significant first
Digits(x, k) == [i \in 1..k |-> (x \div Pow4(k - i)) % 4]

ZeroMer(k) == [i \in 1..k |-> 0]

\* ------------------------------------------------------------ text
Letters == <<"A", "C", "G", "T">>
Decode(d) == [i \in 1..Len(d) |-> Letters[d[i] + 1]]
LetterDigit(c) == CASE c = "A" -> 0 [] c = "C" -> 1 [] c = "G" -> 2 [] c = "T" -> 3
Encode(t) == [i \in 1..Len(t) |-> LetterDigit(t[i])]

\* ------------------------------------------------------------------------
\* Implementation-shaped versions (what the code literally does), used to
\* show at model level that the loops compute the declarative operators.
\* rev_comp: k times { rk := rk*4 + ((x mod 4) xor 3); x := x div 4 }
RevCompLoop(x, k) ==
  LET st[i \in 0..k] == IF i = 0 THEN <<0, x>>
                        ELSE LET p == st[i-1]     \* (single reference: TLC does not memoise st)
                             IN <<4 * p[1] + (3 - (p[2] % 4)), p[2] \div 4>>
  IN st[k][1]

\* numeric_to_kmer: push letter of low digit k times, then reverse the string
NumericToKmerLoop(x, k) ==
  LET st[i \in 0..k] == IF i = 0 THEN <<<<>>, x>>
                        ELSE LET p == st[i-1]
                             IN <<Append(p[1], Letters[(p[2] % 4) + 1]), p[2] \div 4>>
  IN Rev(st[k][1])

\* ------------------------------------------------------------------------
\* Declarative k-mer windows of a class sequence s: for every 1-based start
\* i whose k-window is clean, the pair <<window, RC(window)>>, in order.
CleanWin(s, i, k) == \A j \in i..(i + k - 1) : s[j] # 4
WinStarts(s, k) == IF Len(s) < k THEN <<>>
                   ELSE SelectSeq([i \in 1..(Len(s) - k + 1) |-> i],
                                  LAMBDA i : CleanWin(s, i, k))
Windows(s, k) == LET st == WinStarts(s, k)
                 IN [j \in 1..Len(st) |->
                       LET w == SubSeq(s, st[j], st[j] + k - 1) IN <<w, RC(w)>>]
CanonWindows(s, k) == LET w == Windows(s, k) IN [j \in 1..Len(w) |-> Canon(w[j][1])]

\* number of occurrences of x in sequence q
Occ(q, x) == LET c[i \in 0..Len(q)] == IF i = 0 THEN 0
                                      ELSE c[i-1] + (IF q[i] = x THEN 1 ELSE 0)
             IN c[Len(q)]
SameBag(p, q) == /\ Len(p) = Len(q)
                 /\ \A i \in 1..Len(p) : Occ(p, p[i]) = Occ(q, p[i])
=============================================================================

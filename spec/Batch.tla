-------------------------------- MODULE Batch --------------------------------
(***************************************************************************)
(* The ordered batch loop shared by OligoComputer::vectorise_batch,        *)
(* CgrComputer::vectorise, OligoCgrComputer::vectorise and                 *)
(* CovComputer::compute_coverages (C05, C08, C11, C12, C16).               *)
(* Records are read one by one into a buffer; when the accumulated length  *)
(* reaches the memory limit the buffer is converted in parallel with an    *)
(* ORDER-PRESERVING collect and written; whatever remains at the end is    *)
(* written by a final flush.                                               *)
(***************************************************************************)
EXTENDS Naturals, Sequences
CONSTANTS FinalRule,    \* "buffer_nonempty": the final flush happens iff records are still buffered (all four writers after the repair of
                        \* finding F5). "total_positive": coverage's pinned rule, which loses a last batch of zero-length records -
                        \* kept only to show that DoneInv detects it at design level
          BCfgSet       \* [lens: sequence of record lengths, mem: flush threshold]
VARIABLES bcfg, rd,     \* configuration; number of records read
          buf, total,   \* ordinals waiting in the buffer; their accumulated length
          must,         \* the threshold was reached: the next step is a flush
          rows,         \* ordinals of the rows written so far, in file order
          fin           \* the reader is exhausted and the final flush decision has been taken
bvars == <<bcfg, rd, buf, total, must, rows, fin>>
N == Len(bcfg.lens)

BInitCfg(c) == bcfg = c /\ rd = 0 /\ buf = <<>> /\ total = 0 /\ must = FALSE /\ rows = <<>> /\ fin = FALSE
BInit == \E c \in BCfgSet : BInitCfg(c)
BReset(c) == bcfg' = c /\ rd' = 0 /\ buf' = <<>> /\ total' = 0 /\ must' = FALSE /\ rows' = <<>> /\ fin' = FALSE

Read == /\ ~fin /\ ~must /\ rd < N
        /\ rd' = rd + 1
        /\ buf' = Append(buf, rd)
        /\ total' = total + bcfg.lens[rd + 1]
        /\ must' = (total' >= bcfg.mem)
        /\ UNCHANGED <<bcfg, rows, fin>>

FlushFull == /\ must
             /\ rows' = rows \o buf          \* indexed parallel collect keeps buffer order
             /\ buf' = <<>> /\ total' = 0 /\ must' = FALSE
             /\ UNCHANGED <<bcfg, rd, fin>>

\* end of input: flush iff something is still buffered
WantsFinal == IF FinalRule = "total_positive" THEN total > 0 ELSE buf # <<>>
FinalFlush == /\ ~fin /\ ~must /\ rd = N /\ WantsFinal
              /\ rows' = rows \o buf /\ buf' = <<>> /\ total' = 0 /\ fin' = TRUE
              /\ UNCHANGED <<bcfg, rd, must>>
FinalNone == /\ ~fin /\ ~must /\ rd = N /\ ~WantsFinal
             /\ fin' = TRUE /\ UNCHANGED <<bcfg, rd, buf, total, must, rows>>

BNext == Read \/ FlushFull \/ FinalFlush \/ FinalNone
BSpec == BInit /\ [][BNext]_bvars /\ WF_bvars(BNext)

Iota(n) == [i \in 1..n |-> i - 1]
\* rows written so far + buffered ones are exactly the records read, in input order
OrderInv == rows \o buf = Iota(rd)
\* at the end: one row per record, in order - including zero-length records
DoneInv == fin => rows = Iota(N)
Terminates == <>fin
=============================================================================

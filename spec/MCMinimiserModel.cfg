SPECIFICATION MCSpec
CONSTANTS
  WMSet <- WMEnv
  MaxLen <- LEnv
INVARIANTS PrefixInv NoSentinel KConcat RingInv
CHECK_DEADLOCK FALSE

------------------------------- MODULE FsHist -------------------------------
(***************************************************************************)
(* C17: what each subcommand does to the file system, and histories of     *)
(* runs that share one output location.                                    *)
(* A file is known by its name <<kind, a, b>> ("out" = the -o path,        *)
(* "counts" = kmers.counts, "vectors" = kmers.vectors, "temp" p c =        *)
(* temp_kmers.part_p_chunk_c) and modelled by its OWNER: the run that last *)
(* created it with truncation.  Effects: C name (create + truncate; the    *)
(* memory-mapped writer opens with truncate and then sets the length),     *)
(* R name (open for reading), U name (unlink).                             *)
(* A run is its sequence of effects; a run is correct here iff everything  *)
(* it reads was created by itself and its result files are its own.        *)
(***************************************************************************)
EXTENDS Naturals, Sequences, FiniteSets
CONSTANTS RunSet,      \* run descriptors [kind, chunks, parts, delete]; kind: "single" | "ctr" | "cov"
          MaxHist
VARIABLES fs,          \* name -> owner (run number)
          runno,       \* number of the current / last run (0 = none yet)
          cur,         \* descriptor of the current run
          todo,        \* effects still to be performed by the current run
          active,      \* a run is in progress
          bad          \* the current run read a file it had not created itself
fvars == <<fs, runno, cur, todo, active, bad>>

Out == <<"out", 0, 0>>
Counts == <<"counts", 0, 0>>
Vectors == <<"vectors", 0, 0>>
Temp(p, c) == <<"temp", p, c>>

\* p-major enumeration of the (partition, chunk) pairs 0..n-1
PC(i, chunks) == <<i \div chunks, i % chunks>>
CtrEffects(r) ==
  LET n == r.parts * r.chunks
      \* count(): chunk by chunk, one file per partition
      writes == [i \in 1..n |-> <<"C", Temp((i - 1) % r.parts, (i - 1) \div r.parts)>>]
      \* merge(): per partition, every chunk file is read (and removed when asked)
      merge == LET f[i \in 0..n] ==
                     IF i = 0 THEN <<>>
                     ELSE LET pc == PC(i - 1, r.chunks)
                              t == Temp(pc[1], pc[2])
                          IN f[i-1] \o <<<<"R", t>>>> \o (IF r.delete THEN <<<<"U", t>>>> ELSE <<>>)
               IN f[n]
  IN writes \o <<<<"C", Counts>>>> \o merge
Effects(r) == CASE r.kind = "single" -> <<<<"C", Out>>>>
                [] r.kind = "ctr"    -> CtrEffects(r)
                [] r.kind = "cov"    -> CtrEffects([r EXCEPT !.delete = TRUE]) \o <<<<"R", Counts>>, <<"C", Vectors>>>>
Results(r) == CASE r.kind = "single" -> {Out} [] r.kind = "ctr" -> {Counts} [] r.kind = "cov" -> {Counts, Vectors}

NoRun == [kind |-> "single", chunks |-> 0, parts |-> 0, delete |-> FALSE]
FInit == fs = <<>> /\ runno = 0 /\ cur = NoRun /\ todo = <<>> /\ active = FALSE /\ bad = FALSE

StartRun(r) == /\ ~active /\ runno < MaxHist
               /\ runno' = runno + 1 /\ cur' = r /\ todo' = Effects(r) /\ active' = TRUE
               /\ UNCHANGED <<fs, bad>>
Apply(e) ==
  CASE e[1] = "C" -> /\ fs' = [n \in (DOMAIN fs) \cup {e[2]} |-> IF n = e[2] THEN runno ELSE fs[n]]
                     /\ UNCHANGED bad
    [] e[1] = "R" -> /\ bad' = (bad \/ e[2] \notin DOMAIN fs \/ (e[2] \in DOMAIN fs /\ fs[e[2]] # runno))
                     /\ UNCHANGED fs
    [] e[1] = "U" -> /\ fs' = [n \in (DOMAIN fs) \ {e[2]} |-> fs[n]]
                     /\ UNCHANGED bad
Step == /\ active /\ todo # <<>>
        /\ Apply(Head(todo)) /\ todo' = Tail(todo)
        /\ UNCHANGED <<runno, cur, active>>
EndRun == /\ active /\ todo = <<>> /\ active' = FALSE
          /\ UNCHANGED <<fs, runno, cur, todo, bad>>
FNext == (\E r \in RunSet : StartRun(r)) \/ Step \/ EndRun
FSpec == FInit /\ [][FNext]_fvars

\* every file a run reads was written earlier in the same run
ReadOwn == ~bad
\* after a run, its result files are entirely its own, whatever was there before
ResultFresh == (~active /\ runno > 0) => \A n \in Results(cur) : n \in DOMAIN fs /\ fs[n] = runno
\* a deleting run leaves none of ITS temporary files behind
NoOwnTemp == (~active /\ runno > 0 /\ cur.kind \in {"ctr", "cov"} /\ (cur.delete \/ cur.kind = "cov")) =>
                \A n \in DOMAIN fs : n[1] = "temp" => fs[n] # runno
=============================================================================

------------------------------ MODULE Minimiser ------------------------------
(***************************************************************************)
(* kmer::minimiser::MinimiserGenerator::next and                           *)
(* kmer::kmer_minimisers::KmerMinimiserGenerator::next, transcribed from   *)
(* the loop body.  One Step(c) is one trip round the loop for a byte of    *)
(* class c; End is the call made when the input is exhausted.              *)
(*                                                                         *)
(* The second iterator is the first one plus a rolling W-mer and a list of *)
(* canonical W-mers attached to every run; both are modelled here, the     *)
(* plain iterator being the projection that forgets the lists.             *)
(*                                                                         *)
(* m-mers and W-mers are digit sequences (Nt); the `no run open` value of  *)
(* m_active (u64::MAX in the code) is NoRun.                               *)
(***************************************************************************)
EXTENDS MinOps
CONSTANTS WMSet,    \* set of <<w, m>> pairs explored, 1 <= m <= w
          MaxLen
VARIABLES W, M,     \* window and minimiser size of this iterator (fixed at construction)
          inp,      \* classes consumed so far; pos = Len(inp)
          mf, mr,   \* rolling m-mer, forward / reverse strand (M digits)
          ml,       \* clean bases in the m-mer registers, capped at M-1 after use
          buff,     \* ring of the canonical m-mers of the last (up to) W-M+1 positions
          bpos,     \* index (0-based) in buff of the current minimum
          active,   \* minimiser of the open run, or NoRun
          wstart,   \* start of the open run (0-based)
          kf, kr,   \* rolling W-mer (W digits)         } k-mer reporting variant only
          kl,       \* clean bases in the W-mer registers }
          kbuff,    \* W-mers collected during the current call
          out,      \* emitted runs <<minimiser, start, end, kmers>>
          ended     \* the end-of-input call has been made
vars == <<W, M, inp, mf, mr, ml, buff, bpos, active, wstart, kf, kr, kl, kbuff, out, ended>>

NoRun == <<>>
pos == Len(inp)
Cap == W - M + 1

\* index (1-based) of the leftmost minimum of a non-empty sequence of m-mers:
\* the scan `for j in 0..len { if buff[j] < new_min {..} }` with strict <
LeftMin(s) == LET b[i \in 1..Len(s)] == IF i = 1 THEN 1
                                        ELSE LET p == b[i-1]   \* (one reference: TLC does not memoise b)
                                             IN IF LexLess(s[i], s[p]) THEN i ELSE p
              IN b[Len(s)]

InitWM(w, m) ==
  /\ W = w /\ M = m
  /\ inp = <<>> /\ mf = ZeroMer(m) /\ mr = ZeroMer(m) /\ ml = 0
  /\ buff = <<>> /\ bpos = 0 /\ active = NoRun /\ wstart = 0
  /\ kf = ZeroMer(w) /\ kr = ZeroMer(w) /\ kl = 0 /\ kbuff = <<>>
  /\ out = <<>> /\ ended = FALSE
Init == \E wm \in WMSet : InitWM(wm[1], wm[2])
\* the same as an action: construction of a new iterator (used by trace specs
\* that hold several runs in one file)
ResetWM(w, m) ==
  /\ W' = w /\ M' = m
  /\ inp' = <<>> /\ mf' = ZeroMer(m) /\ mr' = ZeroMer(m) /\ ml' = 0
  /\ buff' = <<>> /\ bpos' = 0 /\ active' = NoRun /\ wstart' = 0
  /\ kf' = ZeroMer(w) /\ kr' = ZeroMer(w) /\ kl' = 0 /\ kbuff' = <<>>
  /\ out' = <<>> /\ ended' = FALSE

Emit(run) == out' = Append(out, run)

\* ambiguous byte: close the open run iff the ring is full, reset everything
AmbigStep ==
  /\ IF Len(buff) = Cap
     THEN Emit(<<active, wstart, pos, kbuff>>)
     ELSE UNCHANGED out
  /\ bpos' = 0 /\ active' = NoRun
  /\ mf' = ZeroMer(M) /\ mr' = ZeroMer(M) /\ ml' = 0
  /\ kf' = ZeroMer(W) /\ kr' = ZeroMer(W) /\ kl' = 0
  /\ wstart' = pos + 1 /\ buff' = <<>> /\ kbuff' = <<>>

CleanStep(c) ==
  LET f  == Append(Tail(mf), c)
      r  == <<3 - c>> \o SubSeq(mr, 1, M - 1)
      nkf == Append(Tail(kf), c)
      nkr == <<3 - c>> \o SubSeq(kr, 1, W - 1)
      l  == ml + 1
      v  == LexMin(f, r)
      \* W-mer bookkeeping happens only once an m-mer is complete (after the `continue`)
      kfull == kl + 1 = W
      kb == IF l >= M /\ kfull THEN Append(kbuff, LexMin(nkf, nkr)) ELSE kbuff
  IN
  /\ mf' = f /\ mr' = r /\ kf' = nkf /\ kr' = nkr
  /\ kl' = IF l >= M /\ kfull THEN W - 1 ELSE kl + 1
  /\ IF l < M
     THEN /\ ml' = l
          /\ kbuff' = kbuff
          /\ UNCHANGED <<buff, bpos, active, wstart, out>>
     ELSE
       /\ ml' = l - 1
       /\ IF Len(buff) = Cap
          THEN LET nb == Append(Tail(buff), v) IN
               /\ buff' = nb
               /\ IF bpos = 0
                  THEN \* the minimum left the window: rescan
                       LET j == LeftMin(nb) IN
                       /\ bpos' = j - 1
                       /\ IF nb[j] # active
                          THEN /\ Emit(<<active, wstart, pos, kb>>)
                               /\ kbuff' = <<>>
                               /\ active' = nb[j]
                               /\ wstart' = pos + 1 - W
                          ELSE /\ kbuff' = kb
                               /\ UNCHANGED <<out, active, wstart>>
                  ELSE IF LexLess(v, active)
                       THEN \* a smaller m-mer entered: break the run
                            /\ Emit(<<active, wstart, pos, kb>>)
                            /\ kbuff' = <<>>
                            /\ active' = v
                            /\ bpos' = Len(nb) - 1
                            /\ wstart' = pos + 1 - W
                       ELSE /\ bpos' = bpos - 1
                            /\ kbuff' = kb
                            /\ UNCHANGED <<out, active, wstart>>
          ELSE LET nb == Append(buff, v) IN
               /\ buff' = nb
               /\ kbuff' = kb
               /\ IF Len(nb) = Cap
                  THEN \* first full window
                       LET j == LeftMin(nb) IN bpos' = j - 1 /\ active' = nb[j]
                  ELSE UNCHANGED <<bpos, active>>
               /\ UNCHANGED <<out, wstart>>

Step(c) ==
  /\ ~ended /\ pos < MaxLen
  /\ inp' = Append(inp, c)
  /\ UNCHANGED <<W, M, ended>>
  /\ IF c = Ambig THEN AmbigStep ELSE CleanStep(c)

\* next() called with the input exhausted: flush the run that is still open
End ==
  /\ ~ended /\ ended' = TRUE
  /\ IF active # NoRun
     THEN Emit(<<active, wstart, pos, kbuff>>)
     ELSE UNCHANGED out
  /\ active' = NoRun /\ kbuff' = <<>>
  /\ UNCHANGED <<W, M, inp, mf, mr, ml, buff, bpos, wstart, kf, kr, kl>>

Next == (\E c \in 0..4 : Step(c)) \/ End
Spec == Init /\ [][Next]_vars

-----------------------------------------------------------------------------
\* Declarative side (C09): see MinOps - maximal runs of consecutive clean W-windows with
\* the same minimiser, as <<value, start, end>> with 0-based [start, end).
Mmer(s, j) == MmerAt(s, j, M)
Runs(s) == RunsWM(s, W, M)

Proj3(o) == [i \in 1..Len(o) |-> <<o[i][1], o[i][2], o[i][3]>>]
OpenRun == IF active # NoRun THEN <<<<active, wstart, pos>>>> ELSE <<>>

\* C09, inductive strength: what has been emitted plus the open run is exactly
\* the runs of the consumed prefix - in every state, hence for every input
PrefixInv == IF ended THEN Proj3(out) = Runs(inp)
                      ELSE Proj3(out) \o OpenRun = Runs(inp)

NoSentinel == \A i \in 1..Len(out) : out[i][1] # NoRun /\ Len(out[i][1]) = M

\* C18: the k-mer lists, concatenated (with what the current call holds), are
\* the canonical W-mers of the consumed prefix in order
Concat(o) == LET c[i \in 0..Len(o)] == IF i = 0 THEN <<>> ELSE c[i-1] \o o[i][4]
             IN c[Len(o)]
KConcat == Concat(out) \o kbuff = CanonWindows(inp, W)

\* ring-buffer invariant: buff holds the canonical m-mers of the last Len(buff)
\* positions, bpos points at its leftmost minimum and active is that value
RingInv ==
  /\ Len(buff) <= Cap
  /\ ~ended => ((active # NoRun) <=> (Len(buff) = Cap))
  /\ \A i \in 1..Len(buff) : buff[i] = Mmer(inp, pos - M + 1 - (Len(buff) - i))
  /\ active # NoRun => /\ buff[bpos + 1] = active
                       /\ \A i \in 1..Len(buff) : LexLeq(active, buff[i])
=============================================================================

----------------------------- MODULE MCKmerIter -----------------------------
(***************************************************************************)
(* Exhaustive exploration of KmerIter over every class string up to MaxLen *)
(* together with the implementation's output table (binding B1).           *)
(* The table is produced by `kvh table kmer` from the real KmerGenerator   *)
(* on the same inputs in the same (bijective base-5) order.                *)
(***************************************************************************)
EXTENDS KmerIter, TLC, IOUtils, Json
VARIABLE idx            \* bijective base-5 index of inp (a function of inp; adds no states)

KEnv == {atoi(IOEnv.VK)}
LEnv == atoi(IOEnv.VL)
Impl == ndJsonDeserialize(IOEnv.VIMPL)
ImplAt(i) == Impl[(i \div 1024) + 1][(i % 1024) + 1]
IdxOf(s) == LET c[i \in 0..Len(s)] == IF i = 0 THEN 0 ELSE c[i-1] * 5 + s[i] + 1
            IN c[Len(s)]
\* <<f1, r1, f2, r2, ...>> as numeric codes
Flat(o) == [j \in 1..(2 * Len(o)) |-> Code(o[(j + 1) \div 2][IF j % 2 = 1 THEN 1 ELSE 2])]

MCInit == Init /\ idx = 0
MCNext == \E c \in 0..4 : Step(c) /\ idx' = idx * 5 + c + 1
MCSpec == MCInit /\ [][MCNext]_<<vars, idx>>

\* the real iterator's complete output on this input is the model's
Conforms == ImplAt(idx) = Flat(out)
\* C02 on the implementation table itself: the stream of the reverse-complemented
\* input is the stream of the input reversed with strands swapped
ImplStrandSym == ImplAt(IdxOf(RCs(inp))) = Rev(ImplAt(idx))
=============================================================================

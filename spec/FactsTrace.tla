------------------------------ MODULE FactsTrace ------------------------------
(***************************************************************************)
(* Stateless facts recorded from the implementation (Rust library, CLI,    *)
(* Python binding) and judged one event at a time by the specification's   *)
(* declarative operators (binding B2/B4 for per-record functions).         *)
(*                                                                         *)
(*   rc{k,x,rc,txt}        rev_comp(x,k), numeric_to_kmer(x,k)/to_acgt;    *)
(*                         32-digit words, k <= 31                         *)
(*   header{k,cols}        column names (letter bytes) of a header         *)
(*   orec{k,norm,bytes,ncols,row,same}                                      *)
(*                         one oligo row: sparse <<col,val,...>>; val is   *)
(*                         the count, or value*10^6 when norm = 1;         *)
(*                         same = 1: must equal the previous event's row   *)
(*   obig{k,norm,rle,ncols,row}                                            *)
(*                         an oligo row of a record given by its runs      *)
(*                         <<class, length>> (every run at least k long)   *)
(*   cgr{bytes,err,npts,nexact,pts,tops}                                    *)
(*                         whole-sequence CGR: err = 1 iff the call        *)
(*                         failed; pts = exact numerators X1,Y1,.. of the  *)
(*                         first nexact points, tops = top 20 bits (x then *)
(*                         y) of each later point                          *)
(*   ocols{k,pts}          k-mer CGR: numerators X,Y of every column       *)
(*                                                                         *)
(* The action only consumes the next line; the judgement is the invariant  *)
(* EventOk on the line just consumed (TLC caches LET values in invariants, *)
(* not in actions).                                                        *)
(***************************************************************************)
EXTENDS CompOps, RunLength, MinOps, TraceLib

LetterByte == <<65, 67, 71, 84>>
DecodeBytes(q) == [i \in 1..Len(q) |-> LetterByte[q[i] + 1]]

\* constants, evaluated once
CanonLists == [kk \in 1..8 |-> CanonList(kk)]
HeaderOf == [kk \in 1..8 |-> [p \in 1..Len(CanonLists[kk]) |-> DecodeBytes(CanonLists[kk][p])]]

RcOk(e) == LET kk == e.k
               dx == LowDigits(e.x, kk)
           IN /\ HighZero(e.x, kk) /\ HighZero(e.rc, kk)
              /\ LowDigits(e.rc, kk) = RC(dx)
              /\ RC(LowDigits(e.rc, kk)) = dx
              /\ e.txt = DecodeBytes(dx)

\* to_acgt / numeric_to_kmer alone
AcgtOk(e) == HighZero(e.x, e.k) /\ e.txt = DecodeBytes(LowDigits(e.x, e.k))

HeaderOk(e) == e.k \in 1..8 /\ e.cols = HeaderOf[e.k]

\* ---- oligo rows (C04, C12, C13)
RowCols(row) == {row[2 * j - 1] : j \in 1..(Len(row) \div 2)}
RowVal(row, p) == LET hits == {j \in 1..(Len(row) \div 2) : row[2 * j - 1] = p}
                  IN IF hits = {} THEN 0 ELSE row[2 * (CHOOSE j \in hits : TRUE)]
ORecOk(e, prev) ==
  LET kk  == e.k
      cl  == CanonLists[kk]
      cw  == CanonWindows(Classes(e.bytes), kk)
      tot == Len(cw)
      row == e.row
      kinds == {cw[i] : i \in 1..Len(cw)}                 \* canonical k-mers present
      cols == RowCols(row)
  IN /\ kk \in 1..8
     /\ e.ncols = Len(cl)
     /\ Len(row) % 2 = 0
     /\ \A p \in cols : p \in 0..(Len(cl) - 1)
     /\ Cardinality(cols) = Len(row) \div 2                \* no column listed twice
     /\ e.norm \in {0, 1}
     /\ IF e.norm = 0
        THEN \* exactly the present k-mers, each with its number of occurrences
             /\ {cl[p + 1] : p \in cols} = kinds
             /\ \A p \in cols : RowVal(row, p) = Occ(cw, cl[p + 1])
        ELSE \* every column correct to 6 decimals (absent columns read 0)
             /\ \A p \in cols : NormOk(RowVal(row, p), Occ(cw, cl[p + 1]), tot)
             /\ \A d \in kinds : \E p \in cols \cup {0 - 1} :
                    IF p = 0 - 1 THEN NormOk(0, Occ(cw, d), tot) /\ \A q \in cols : cl[q + 1] # d
                    ELSE cl[p + 1] = d
     /\ e.same = 1 => row = prev.row

\* the same judgement for a record given by its run lengths (RunLength: counts from the runs alone; RleAgrees is checked
\* by TLC on a small universe). Records of tens of millions of bases: totals beyond 2^24, counts beyond 2^16.
OBigOk(e) ==
  LET kk  == e.k
      cl  == CanonLists[kk]
      tot == RleTotal(e.rle, kk)
      kinds == RleKinds(e.rle, kk)
      row == e.row
      cols == RowCols(row)
  IN /\ kk \in 1..8 /\ RleOk(e.rle, kk)
     /\ e.ncols = Len(cl)
     /\ Len(row) % 2 = 0
     /\ \A p \in cols : p \in 0..(Len(cl) - 1)
     /\ Cardinality(cols) = Len(row) \div 2
     /\ e.norm \in {0, 1}
     /\ IF e.norm = 0
        THEN /\ {cl[p + 1] : p \in cols} = kinds
             /\ \A p \in cols : RowVal(row, p) = RleOcc(e.rle, kk, cl[p + 1])
        ELSE /\ \A p \in cols : NormOk(RowVal(row, p), RleOcc(e.rle, kk, cl[p + 1]), tot)
             /\ \A d \in kinds : \E p \in cols \cup {0 - 1} :
                    IF p = 0 - 1 THEN NormOk(0, RleOcc(e.rle, kk, d), tot) /\ \A q \in cols : cl[q + 1] # d
                    ELSE cl[p + 1] = d

\* ---- whole-sequence CGR (C11, C13)
Pow2 == LET p[j \in 0..30] == IF j = 0 THEN 1 ELSE 2 * p[j-1] IN p
MinOf(a, b) == IF a < b THEN a ELSE b
\* integer formed by the corner bits of the 20 bases ending at position i, newest first (needs i >= 20)
TopNum(cls, i, cf(_)) == LET v[j \in 0..20] == IF j = 0 THEN 0 ELSE 2 * v[j-1] + cf(cls[i + 1 - j]) IN v[20]
BitLen(x) == CHOOSE b \in 1..31 : (b = 1 \/ x >= Pow2[b - 1]) /\ (b = 31 \/ x < Pow2[b])
CgrOk(e) ==
  LET cls == Classes(e.bytes)
      n == Len(cls)
      bad == \E i \in 1..n : cls[i] = Ambig
  IN IF bad THEN e.err = 1 /\ e.npts = 0 /\ e.nexact = 0 /\ e.pts = <<>> /\ e.tops = <<>>
     ELSE /\ e.err = 0 /\ e.npts = n
          \* the exact phase: 29 points (numerators below 2^31 for TLC), fewer where size * numerator would not fit a
          \* double's 53 bits: bitlen(size) + i + 1 <= 53
          /\ e.nexact = MinOf(n, MinOf(29, 52 - BitLen(e.s)))
          /\ Len(e.pts) = 2 * e.nexact
          /\ \A i \in 1..e.nexact : /\ e.pts[2 * i - 1] = Num(PathOf(cls, i, CornerX))
                                    /\ e.pts[2 * i]     = Num(PathOf(cls, i, CornerY))
          \* (recur: points that are not the double-precision midpoint of their predecessor and their base's corner, counted by
          \* the recorder - the rule in the arithmetic the code states it in; the exact and the top-bit judgements below are TLC's)
          /\ ("recur" \in DOMAIN e) => e.recur = 0
          /\ Len(e.tops) = n - e.nexact
          \* beyond the exact phase: the top 20 bits of point i are the corner bits of the last 20 bases (sub-square containment)
          /\ \A t \in 1..Len(e.tops) :
               LET i == e.nexact + t IN
               /\ e.tops[t][1] = TopNum(cls, i, CornerX)
               /\ e.tops[t][2] = TopNum(cls, i, CornerY)

\* ---- k-mer CGR columns (C12): end point of each canonical k-mer's text
OColsOk(e) ==
  LET cl == CanonLists[e.k] IN
  /\ Len(e.pts) = 2 * Len(cl)
  /\ \A p \in 1..Len(cl) : /\ e.pts[2 * p - 1] = Num(PathOf(cl[p], e.k, CornerX))
                           /\ e.pts[2 * p]     = Num(PathOf(cl[p], e.k, CornerY))

\* ---- counting under contention (C07): `copies` identical records, 16 threads, no hooks: every canonical k-mer of the
\* record once, with copies x its number of occurrences; nothing temporary left
CtrStressOk(e) ==
  LET cw == CanonWindows(Classes(e.bytes), e.k)
      kinds == {cw[i] : i \in 1..Len(cw)}
  IN /\ Len(e.lines) = Cardinality(kinds)
     /\ e.temps = 0
     /\ \A i \in 1..Len(e.lines) :
          LET d == LowDigits(e.lines[i][1], e.k) IN
          /\ HighZero(e.lines[i][1], e.k) /\ d \in kinds
          /\ e.lines[i][2] = e.copies * Occ(cw, d)
     /\ \A i, j \in 1..Len(e.lines) : i # j => e.lines[i][1] # e.lines[j][1]

\* the same for records given by their run lengths (RunLength): inputs of hundreds of thousands of bases per record, one
\* k-mer occurring far more than 2^16 times
SumOcc(recs, k, d) == LET t[i \in 0..Len(recs)] == IF i = 0 THEN 0 ELSE t[i-1] + RleOcc(recs[i], k, d) IN t[Len(recs)]
CtrBigOk(e) ==
  LET kinds == UNION {RleKinds(e.recs[i], e.k) : i \in 1..Len(e.recs)}
  IN /\ \A i \in 1..Len(e.recs) : RleOk(e.recs[i], e.k)
     /\ Len(e.lines) = Cardinality(kinds)
     /\ e.temps = 0
     /\ \A i \in 1..Len(e.lines) :
          LET d == LowDigits(e.lines[i][1], e.k) IN
          /\ HighZero(e.lines[i][1], e.k) /\ d \in kinds
          /\ e.lines[i][2] = SumOcc(e.recs, e.k, d)
     /\ \A i, j \in 1..Len(e.lines) : i # j => e.lines[i][1] # e.lines[j][1]

\* coverage rows (C08) of records given by run lengths, counted against the same file: entry b of row i is the number of
\* windows of record i whose canonical k-mer occurs c times in the whole input with min(c div bs, bc - 1) = b
CovBigOk(e) ==
  /\ \A i \in 1..Len(e.recs) : RleOk(e.recs[i], e.k)
  /\ Len(e.rows) = Len(e.recs)
  /\ \A i \in 1..Len(e.recs) :
       LET pairs == RlePairs(e.recs[i], e.k)
           bins == [p \in 1..Len(pairs) |-> MinOf(SumOcc(e.recs, e.k, pairs[p][1]) \div e.bs, e.bc - 1)]
           tot == RleTotal(e.recs[i], e.k)
           row == e.rows[i][2]
           cols == RowCols(row)
           hist(b) == LET t[p \in 0..Len(pairs)] == IF p = 0 THEN 0 ELSE t[p-1] + (IF bins[p] = b THEN pairs[p][2] ELSE 0)
                      IN t[Len(pairs)]
           used == {bins[p] : p \in 1..Len(pairs)}
       IN /\ e.rows[i][1] = e.bc
          /\ Len(row) % 2 = 0 /\ Cardinality(cols) = Len(row) \div 2
          /\ \A b \in cols : b \in 0..(e.bc - 1)
          /\ \A b \in cols \cup used :
               IF e.norm = 0 THEN RowVal(row, b) = hist(b) ELSE NormOk(RowVal(row, b), hist(b), tot)

\* ---- very many records (ordinals beyond 2^16, branches taken every 10 000th record): the records are drawn from a small
\* pool; order[i] is the pool entry of record i, lineidx[i] the distinct output line that record i received
ManyOligoOk(e) ==
  LET P == Len(e.pool)
      D == Len(e.distinct)
      ok == [d \in 1..D |-> [p \in 1..P |->
               ORecOk([k |-> e.k, norm |-> e.norm, bytes |-> e.pool[p], ncols |-> e.ncols[d], row |-> e.distinct[d], same |-> 0], e)]]
  IN /\ Len(e.lineidx) = Len(e.order)                 \* one row per record, in input order
     /\ \A i \in 1..Len(e.order) : e.lineidx[i] \in 1..D /\ e.order[i] \in 1..P /\ ok[e.lineidx[i]][e.order[i]]
\* minimiser listings: for s2m the lines sorted by record number; for m2s the listing inverted back by the recorder
\* (regions of each record sorted by start; `stray` = items naming no record, `keys` / `dkeys` = lines / distinct minimisers)
ManyMinOk(e) ==
  LET P == Len(e.pool)
      D == Len(e.distinct)
      exp == [p \in 1..P |-> RunsWM(Classes(e.pool[p]), IF e.w = 0 THEN Len(e.pool[p]) ELSE e.w, e.m)]
  IN /\ Len(e.lineidx) = Len(e.order) /\ Len(e.ids) = Len(e.order)
     /\ e.stray = 0 /\ e.keys = e.dkeys
     /\ \A i \in 1..Len(e.order) : /\ e.ids[i] = i - 1                 \* every record exactly once
                                    /\ e.lineidx[i] \in 1..D /\ e.order[i] \in 1..P
                                    /\ e.distinct[e.lineidx[i]] = exp[e.order[i]]
ManyCtrOk(e) ==
  LET P == Len(e.pool)
      cws == [p \in 1..P |-> CanonWindows(Classes(e.pool[p]), e.k)]
      kinds == UNION {{cws[p][i] : i \in 1..Len(cws[p])} : p \in {q \in 1..P : e.mult[q] > 0}}
      total(d) == LET t[p \in 0..P] == IF p = 0 THEN 0 ELSE t[p-1] + e.mult[p] * Occ(cws[p], d) IN t[P]
  IN /\ Len(e.lines) = Cardinality(kinds) /\ e.temps = 0
     /\ \A i \in 1..Len(e.lines) :
          LET d == LowDigits(e.lines[i][1], e.k) IN
          /\ HighZero(e.lines[i][1], e.k) /\ d \in kinds /\ e.lines[i][2] = total(d)
     /\ \A i, j \in 1..Len(e.lines) : i # j => e.lines[i][1] # e.lines[j][1]

\* ---- provided Iterator methods on a partially consumed iterator (count, last, nth after `skip` calls of next): they must
\* agree with the item list that next() yields
IterApiOk(e) ==
  LET cls == Classes(e.bytes)
      items == IF e.kind = "kmer"
               THEN LET ws == Windows(cls, e.k) IN [i \in 1..Len(ws) |-> <<ws[i][1], ws[i][2]>>]
               ELSE RunsWM(cls, e.w, e.m)
      n == Len(items)
      rest == IF e.skip >= n THEN 0 ELSE n - e.skip
      Shown(x, i) ==        \* the logged item is item i of the list
        IF e.kind = "kmer"
        THEN /\ Len(x) = 2 /\ HighZero(x[1], e.k) /\ HighZero(x[2], e.k)
             /\ LowDigits(x[1], e.k) = items[i][1] /\ LowDigits(x[2], e.k) = items[i][2]
        ELSE /\ Len(x) = 3 /\ HighZero(x[1], e.m) /\ LowDigits(x[1], e.m) = items[i][1]
             /\ x[2] = items[i][2] /\ x[3] = items[i][3]
  IN /\ e.count = rest
     /\ IF rest = 0 THEN e.last = <<>> ELSE Shown(e.last, n)
     /\ IF e.nth >= rest THEN e.nthitem = <<>> ELSE Shown(e.nthitem, e.skip + e.nth + 1)

EventOk ==
  l > 1 =>
    LET e == Rec[l - 1] IN
    CASE e.ev = "rc"     -> RcOk(e)
      [] e.ev = "acgt"   -> AcgtOk(e)
      [] e.ev = "header" -> HeaderOk(e)
      [] e.ev = "orec"   -> ORecOk(e, IF l > 2 THEN Rec[l - 2] ELSE e)
      [] e.ev = "obig"   -> OBigOk(e)
      [] e.ev = "cgr"    -> CgrOk(e)
      [] e.ev = "ocols"  -> OColsOk(e)
      \* C05: same records, another container / writer / thread count / batch limit: same bytes;
      \* a header adds exactly one line
      [] e.ev = "same"   -> e.digest = e.first /\ e.digest # "failed" /\ e.lines = e.n + e.hdr
      \* C14: largest index used + 1 <= buffer length, for each unchecked access site
      [] e.ev = "idx"    -> \A i \in 1..(Len(e.a) \div 2) : e.a[2 * i - 1] <= e.a[2 * i]
      [] e.ev = "ctrstress" -> CtrStressOk(e)
      [] e.ev = "ctrbig" -> CtrBigOk(e)
      [] e.ev = "covbig" -> CovBigOk(e)
      [] e.ev = "iterapi" -> IterApiOk(e)
      [] e.ev = "manyo"  -> ManyOligoOk(e)
      [] e.ev = "manymin" -> ManyMinOk(e)
      [] e.ev = "manyctr" -> ManyCtrOk(e)
      \* two renderings of the same quantity (e.g. bit patterns of the binding's and of the core's result) must be equal
      [] e.ev = "eq"     -> e.a = e.b /\ e.a # "missing"
      [] e.ev = "batchlen" -> e.got = e.n          \* a batch call returns one result per argument
      [] e.ev = "eof"    -> l - 1 = Len(Rec)
      [] OTHER           -> FALSE

TInit == TrackInit /\ l = 1
TNext == l <= Len(Rec) /\ Consume
TSpec == TInit /\ [][TNext]_l
Post == Accepted
=============================================================================

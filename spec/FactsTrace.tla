------------------------------ MODULE FactsTrace ------------------------------
(***************************************************************************)
(* Stateless facts recorded from the implementation (Rust library, CLI,    *)
(* Python binding) and judged one event at a time by the specification's   *)
(* declarative operators (binding B2/B4 for per-record functions).         *)
(*                                                                         *)
(*   rc{k,x,rc,txt}        rev_comp(x,k), numeric_to_kmer(x,k)/to_acgt;    *)
(*                         32-digit words, k <= 31                         *)
(*   header{k,cols}        column names (letter bytes) of a header         *)
(*   orec{k,norm,bytes,ncols,row,same}                                      *)
(*                         one oligo row: sparse <<col,val,...>>; val is   *)
(*                         the count, or value*10^6 when norm = 1;         *)
(*                         same = 1: must equal the previous event's row   *)
(*   obig{k,norm,rle,ncols,row}                                            *)
(*                         an oligo row of a record given by its runs      *)
(*                         <<class, length>> (every run at least k long)   *)
(*   cgr{bytes,err,npts,nexact,pts,tops}                                    *)
(*                         whole-sequence CGR: err = 1 iff the call        *)
(*                         failed; pts = exact numerators X1,Y1,.. of the  *)
(*                         first nexact points, tops = top 20 bits (x then *)
(*                         y) of each later point                          *)
(*   ocols{k,pts}          k-mer CGR: numerators X,Y of every column       *)
(*                                                                         *)
(* The action only consumes the next line; the judgement is the invariant  *)
(* EventOk on the line just consumed (TLC caches LET values in invariants, *)
(* not in actions).                                                        *)
(***************************************************************************)
EXTENDS CompOps, RunLength, TraceLib

LetterByte == <<65, 67, 71, 84>>
DecodeBytes(q) == [i \in 1..Len(q) |-> LetterByte[q[i] + 1]]

\* constants, evaluated once
CanonLists == [kk \in 1..8 |-> CanonList(kk)]
HeaderOf == [kk \in 1..8 |-> [p \in 1..Len(CanonLists[kk]) |-> DecodeBytes(CanonLists[kk][p])]]

RcOk(e) == LET kk == e.k
               dx == LowDigits(e.x, kk)
           IN /\ HighZero(e.x, kk) /\ HighZero(e.rc, kk)
              /\ LowDigits(e.rc, kk) = RC(dx)
              /\ RC(LowDigits(e.rc, kk)) = dx
              /\ e.txt = DecodeBytes(dx)

\* to_acgt / numeric_to_kmer alone
AcgtOk(e) == HighZero(e.x, e.k) /\ e.txt = DecodeBytes(LowDigits(e.x, e.k))

HeaderOk(e) == e.k \in 1..8 /\ e.cols = HeaderOf[e.k]

\* ---- oligo rows (C04, C12, C13)
RowCols(row) == {row[2 * j - 1] : j \in 1..(Len(row) \div 2)}
RowVal(row, p) == LET hits == {j \in 1..(Len(row) \div 2) : row[2 * j - 1] = p}
                  IN IF hits = {} THEN 0 ELSE row[2 * (CHOOSE j \in hits : TRUE)]
ORecOk(e, prev) ==
  LET kk  == e.k
      cl  == CanonLists[kk]
      cw  == CanonWindows(Classes(e.bytes), kk)
      tot == Len(cw)
      row == e.row
      kinds == {cw[i] : i \in 1..Len(cw)}                 \* canonical k-mers present
      cols == RowCols(row)
  IN /\ kk \in 1..8
     /\ e.ncols = Len(cl)
     /\ Len(row) % 2 = 0
     /\ \A p \in cols : p \in 0..(Len(cl) - 1)
     /\ Cardinality(cols) = Len(row) \div 2                \* no column listed twice
     /\ e.norm \in {0, 1}
     /\ IF e.norm = 0
        THEN \* exactly the present k-mers, each with its number of occurrences
             /\ {cl[p + 1] : p \in cols} = kinds
             /\ \A p \in cols : RowVal(row, p) = Occ(cw, cl[p + 1])
        ELSE \* every column correct to 6 decimals (absent columns read 0)
             /\ \A p \in cols : NormOk(RowVal(row, p), Occ(cw, cl[p + 1]), tot)
             /\ \A d \in kinds : \E p \in cols \cup {0 - 1} :
                    IF p = 0 - 1 THEN NormOk(0, Occ(cw, d), tot) /\ \A q \in cols : cl[q + 1] # d
                    ELSE cl[p + 1] = d
     /\ e.same = 1 => row = prev.row

\* the same judgement for a record given by its run lengths (RunLength: counts from the runs alone; RleAgrees is checked
\* by TLC on a small universe). Records of tens of millions of bases: totals beyond 2^24, counts beyond 2^16.
OBigOk(e) ==
  LET kk  == e.k
      cl  == CanonLists[kk]
      tot == RleTotal(e.rle, kk)
      kinds == RleKinds(e.rle, kk)
      row == e.row
      cols == RowCols(row)
  IN /\ kk \in 1..8 /\ RleOk(e.rle, kk)
     /\ e.ncols = Len(cl)
     /\ Len(row) % 2 = 0
     /\ \A p \in cols : p \in 0..(Len(cl) - 1)
     /\ Cardinality(cols) = Len(row) \div 2
     /\ e.norm \in {0, 1}
     /\ IF e.norm = 0
        THEN /\ {cl[p + 1] : p \in cols} = kinds
             /\ \A p \in cols : RowVal(row, p) = RleOcc(e.rle, kk, cl[p + 1])
        ELSE /\ \A p \in cols : NormOk(RowVal(row, p), RleOcc(e.rle, kk, cl[p + 1]), tot)
             /\ \A d \in kinds : \E p \in cols \cup {0 - 1} :
                    IF p = 0 - 1 THEN NormOk(0, RleOcc(e.rle, kk, d), tot) /\ \A q \in cols : cl[q + 1] # d
                    ELSE cl[p + 1] = d

\* ---- whole-sequence CGR (C11, C13)
\* integer formed by the corner bits of the 20 bases ending at position i, newest first (needs i >= 20)
TopNum(cls, i, cf(_)) == LET v[j \in 0..20] == IF j = 0 THEN 0 ELSE 2 * v[j-1] + cf(cls[i + 1 - j]) IN v[20]
CgrOk(e) ==
  LET cls == Classes(e.bytes)
      n == Len(cls)
      bad == \E i \in 1..n : cls[i] = Ambig
  IN IF bad THEN e.err = 1 /\ e.npts = 0 /\ e.nexact = 0 /\ e.pts = <<>> /\ e.tops = <<>>
     ELSE /\ e.err = 0 /\ e.npts = n
          /\ e.nexact = (IF n < 29 THEN n ELSE 29)
          /\ Len(e.pts) = 2 * e.nexact
          /\ \A i \in 1..e.nexact : /\ e.pts[2 * i - 1] = Num(PathOf(cls, i, CornerX))
                                    /\ e.pts[2 * i]     = Num(PathOf(cls, i, CornerY))
          /\ Len(e.tops) = n - e.nexact
          \* beyond the exact phase: the top 20 bits of point i are the corner bits of the last 20 bases (sub-square containment)
          /\ \A t \in 1..Len(e.tops) :
               LET i == e.nexact + t IN
               /\ e.tops[t][1] = TopNum(cls, i, CornerX)
               /\ e.tops[t][2] = TopNum(cls, i, CornerY)

\* ---- k-mer CGR columns (C12): end point of each canonical k-mer's text
OColsOk(e) ==
  LET cl == CanonLists[e.k] IN
  /\ Len(e.pts) = 2 * Len(cl)
  /\ \A p \in 1..Len(cl) : /\ e.pts[2 * p - 1] = Num(PathOf(cl[p], e.k, CornerX))
                           /\ e.pts[2 * p]     = Num(PathOf(cl[p], e.k, CornerY))

\* ---- counting under contention (C07): `copies` identical records, 16 threads, no hooks: every canonical k-mer of the
\* record once, with copies x its number of occurrences; nothing temporary left
CtrStressOk(e) ==
  LET cw == CanonWindows(Classes(e.bytes), e.k)
      kinds == {cw[i] : i \in 1..Len(cw)}
  IN /\ Len(e.lines) = Cardinality(kinds)
     /\ e.temps = 0
     /\ \A i \in 1..Len(e.lines) :
          LET d == LowDigits(e.lines[i][1], e.k) IN
          /\ HighZero(e.lines[i][1], e.k) /\ d \in kinds
          /\ e.lines[i][2] = e.copies * Occ(cw, d)
     /\ \A i, j \in 1..Len(e.lines) : i # j => e.lines[i][1] # e.lines[j][1]

\* the same for records given by their run lengths (RunLength): inputs of hundreds of thousands of bases per record, one
\* k-mer occurring far more than 2^16 times
SumOcc(recs, k, d) == LET t[i \in 0..Len(recs)] == IF i = 0 THEN 0 ELSE t[i-1] + RleOcc(recs[i], k, d) IN t[Len(recs)]
CtrBigOk(e) ==
  LET kinds == UNION {RleKinds(e.recs[i], e.k) : i \in 1..Len(e.recs)}
  IN /\ \A i \in 1..Len(e.recs) : RleOk(e.recs[i], e.k)
     /\ Len(e.lines) = Cardinality(kinds)
     /\ e.temps = 0
     /\ \A i \in 1..Len(e.lines) :
          LET d == LowDigits(e.lines[i][1], e.k) IN
          /\ HighZero(e.lines[i][1], e.k) /\ d \in kinds
          /\ e.lines[i][2] = SumOcc(e.recs, e.k, d)
     /\ \A i, j \in 1..Len(e.lines) : i # j => e.lines[i][1] # e.lines[j][1]

EventOk ==
  l > 1 =>
    LET e == Rec[l - 1] IN
    CASE e.ev = "rc"     -> RcOk(e)
      [] e.ev = "acgt"   -> AcgtOk(e)
      [] e.ev = "header" -> HeaderOk(e)
      [] e.ev = "orec"   -> ORecOk(e, IF l > 2 THEN Rec[l - 2] ELSE e)
      [] e.ev = "obig"   -> OBigOk(e)
      [] e.ev = "cgr"    -> CgrOk(e)
      [] e.ev = "ocols"  -> OColsOk(e)
      \* C05: same records, another container / writer / thread count / batch limit: same bytes;
      \* a header adds exactly one line
      [] e.ev = "same"   -> e.digest = e.first /\ e.digest # "failed" /\ e.lines = e.n + e.hdr
      \* C14: largest index used + 1 <= buffer length, for each unchecked access site
      [] e.ev = "idx"    -> \A i \in 1..(Len(e.a) \div 2) : e.a[2 * i - 1] <= e.a[2 * i]
      [] e.ev = "ctrstress" -> CtrStressOk(e)
      [] e.ev = "ctrbig" -> CtrBigOk(e)
      \* two renderings of the same quantity (e.g. bit patterns of the binding's and of the core's result) must be equal
      [] e.ev = "eq"     -> e.a = e.b /\ e.a # "missing"
      [] e.ev = "batchlen" -> e.got = e.n          \* a batch call returns one result per argument
      [] e.ev = "eof"    -> l - 1 = Len(Rec)
      [] OTHER           -> FALSE

TInit == TrackInit /\ l = 1
TNext == l <= Len(Rec) /\ Consume
TSpec == TInit /\ [][TNext]_l
Post == Accepted
=============================================================================

------------------------------ MODULE FactsTrace ------------------------------
(***************************************************************************)
(* Stateless facts recorded from the implementation and judged by the      *)
(* specification's operators, one event at a time (binding B2 for pure     *)
(* functions):                                                             *)
(*   rc{k,x,rc,txt}      rev_comp(x,k) and numeric_to_kmer(x,k)/to_acgt    *)
(*                       for sampled codes, k <= 31 (32-digit words)       *)
(*   header{k,cols}      column names (letter bytes) of a header line      *)
(***************************************************************************)
EXTENDS Nt, TraceLib

LetterByte == <<65, 67, 71, 84>>
DecodeBytes(q) == [i \in 1..Len(q) |-> LetterByte[q[i] + 1]]

\* canonical k-mers in increasing code order (k <= 8 here: Pow4 stays small)
CanonList(kk) == SelectSeq([i \in 1..Pow4(kk) |-> Digits(i - 1, kk)], IsCanon)
\* header of the composition vectors
HeaderOf(kk) == LET cl == CanonList(kk) IN [p \in 1..Len(cl) |-> DecodeBytes(cl[p])]

TInit == TrackInit /\ l = 1

TRc == /\ Is("rc")
       /\ LET kk == Ev.k
              dx == LowDigits(Ev.x, kk)
          IN /\ HighZero(Ev.x, kk) /\ HighZero(Ev.rc, kk)
             /\ LowDigits(Ev.rc, kk) = RC(dx)
             /\ RC(LowDigits(Ev.rc, kk)) = dx
             /\ Ev.txt = DecodeBytes(dx)
       /\ Consume

THeader == /\ Is("header")
           /\ Ev.k \in 1..8
           /\ Ev.cols = HeaderOf(Ev.k)
           /\ Consume

TEof == Is("eof") /\ Consume

TNext == TRc \/ THeader \/ TEof
TSpec == TInit /\ [][TNext]_l
Post == Accepted
=============================================================================

------------------------------ MODULE OligoVec ------------------------------
(***************************************************************************)
(* composition::oligo::OligoComputer::vectorise_one (and the identical     *)
(* loops in oligocgr.rs and pybindings/oligo.rs): an accumulator over the  *)
(* k-mer iterator.  vec is indexed by column (rank of the canonical k-mer, *)
(* see PosMap); total counts the windows.                                  *)
(***************************************************************************)
EXTENDS KmerIter, CompOps
VARIABLES vec, total
ovars == <<vars, vec, total>>

CanonLists == [kk \in 1..4 |-> CanonList(kk)]      \* a constant, evaluated once
KCount == Len(CanonLists[K])
ColOf(d) == CHOOSE p \in 0..(KCount - 1) : CanonLists[K][p + 1] = d

OInit == Init /\ vec = [p \in 0..(KCount - 1) |-> 0] /\ total = 0

OStep(c) ==
  /\ Step(c)
  /\ IF Len(out') > Len(out)
     THEN LET e == out'[Len(out')]
              mm == LexMin(e[1], e[2])          \* u64::min(fmer, rmer)
          IN /\ vec' = [vec EXCEPT ![ColOf(mm)] = @ + 1]
             /\ total' = total + 1
     ELSE UNCHANGED <<vec, total>>

ONext == \E c \in 0..4 : OStep(c)
OSpec == OInit /\ [][ONext]_ovars

-----------------------------------------------------------------------------
\* C04 (counts mode): column p holds the number of clean windows whose canonical form is column p's k-mer
VecIsCount == \A p \in 0..(KCount - 1) : vec[p] = Occ(CanonWindows(inp, K), CanonLists[K][p + 1])
SumVec == LET s[p \in 0..KCount] == IF p = 0 THEN 0 ELSE s[p-1] + vec[p-1] IN s[KCount]
TotalIsWindows == total = Len(Windows(inp, K)) /\ SumVec = total
\* C14: min(fmer, rmer) is a canonical k-mer, so it has a column inside the vector
IndexInRange == \A i \in 1..Len(out) : \E p \in 0..(KCount - 1) : CanonLists[K][p + 1] = LexMin(out[i][1], out[i][2])
\* the row does not change under reverse complement of the record
RCInvariant == \A p \in 0..(KCount - 1) :
                 Occ(CanonWindows(RCs(inp), K), CanonLists[K][p + 1]) = vec[p]

=============================================================================

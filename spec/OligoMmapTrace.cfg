SPECIFICATION TSpec
CONSTANT CfgSet <- AnyCfg
INVARIANT TraceInv
CONSTRAINT Track
POSTCONDITION Post
CHECK_DEADLOCK FALSE

SPECIFICATION TSpec
CONSTANTS
  LegacyPlan = FALSE
  CfgSet <- AnyCfg
INVARIANT TraceInv
CONSTRAINT Track
POSTCONDITION Post
CHECK_DEADLOCK FALSE

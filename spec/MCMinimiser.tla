----------------------------- MODULE MCMinimiser -----------------------------
(***************************************************************************)
(* Exhaustive exploration of Minimiser over every string of the alphabet   *)
(* Alpha up to MaxLen for one (w, m), with the implementation tables of    *)
(* both real iterators (binding B1): `kvh table minimiser` / `kmermin`.    *)
(***************************************************************************)
EXTENDS Minimiser, TLC, IOUtils, Json
VARIABLE idx

WEnv == atoi(IOEnv.VW)
MEnv == atoi(IOEnv.VM)
WMEnv == {<<WEnv, MEnv>>}
LEnv == atoi(IOEnv.VL)
\* alphabet as a string of class digits, e.g. "01234" or "014"
AlphaEnv == LET a == IOEnv.VALPHA IN
            IF a = "01234" THEN <<0, 1, 2, 3, 4>>
            ELSE IF a = "014" THEN <<0, 1, 4>>
            ELSE IF a = "0124" THEN <<0, 1, 2, 4>>
            ELSE <<0, 1, 2, 3>>
Sigma == Len(AlphaEnv)
Impl  == ndJsonDeserialize(IOEnv.VIMPL)     \* plain iterator:  v, s, e, ...
ImplK == ndJsonDeserialize(IOEnv.VIMPLK)    \* k-mer variant:   v, s, e, n, k1..kn, ...
At(t, i) == t[(i \div 1024) + 1][(i % 1024) + 1]

MCInit == Init /\ idx = 0
MCNext == \/ \E a \in 1..Sigma : Step(AlphaEnv[a]) /\ idx' = idx * Sigma + a
          \/ End /\ UNCHANGED idx
MCSpec == MCInit /\ [][MCNext]_<<vars, idx>>

Flat3(o) == [j \in 1..(3 * Len(o)) |->
               LET e == o[(j + 2) \div 3] IN
               IF j % 3 = 1 THEN Code(e[1]) ELSE IF j % 3 = 2 THEN e[2] ELSE e[3]]
FlatK(o) == LET c[i \in 0..Len(o)] ==
                  IF i = 0 THEN <<>>
                  ELSE c[i-1] \o <<Code(o[i][1]), o[i][2], o[i][3], Len(o[i][4])>>
                              \o [j \in 1..Len(o[i][4]) |-> Code(o[i][4][j])]
            IN c[Len(o)]

\* the complete output of the real iterators on this input is the model's
Conforms  == ended => At(Impl, idx) = Flat3(out)
ConformsK == ended => At(ImplK, idx) = FlatK(out)
=============================================================================

------------------------------ MODULE MCFsHist ------------------------------
EXTENDS FsHist, TLC
Runs == {[kind |-> "single", chunks |-> 0, parts |-> 0, delete |-> FALSE]}
        \cup {[kind |-> "ctr", chunks |-> c, parts |-> p, delete |-> d] : c \in {0, 1, 3}, p \in {1, 2}, d \in BOOLEAN}
        \cup {[kind |-> "cov", chunks |-> c, parts |-> p, delete |-> TRUE] : c \in {1, 3}, p \in {1, 2}}
Three == 3
=============================================================================

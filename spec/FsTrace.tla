------------------------------- MODULE FsTrace -------------------------------
(***************************************************************************)
(* C17: file-system effects of real runs (from `strace -f` restricted to   *)
(* the output location) and result comparisons of run histories, judged by *)
(* FsHist.                                                                 *)
(*   frun{kind,delete}      a run starts ("single" | "ctr" | "cov")        *)
(*   fs{op,name}            op "C": opened for writing WITH truncation (or *)
(*                          followed by an exact ftruncate); "W": opened   *)
(*                          for writing without; "R": opened for reading;  *)
(*                          "U": unlinked.  name = <<kind, a, b>>          *)
(*   fend                   the run ended                                  *)
(*   eq{what,a,b}           digests of a result file after the history in  *)
(*                          the shared location and after the last run     *)
(*                          alone in a fresh one                           *)
(***************************************************************************)
EXTENDS FsHist, TraceLib
tvars == <<fvars, l>>
TInit == TrackInit /\ l = 1 /\ FInit
NameOf(e) == <<e.name[1], e.name[2], e.name[3]>>
TStart == /\ Is("frun") /\ ~active
          /\ runno' = runno + 1 /\ active' = TRUE /\ todo' = <<>>
          /\ cur' = [kind |-> Ev.kind, chunks |-> 0, parts |-> 0, delete |-> (Ev.delete = 1)]
          /\ Consume /\ UNCHANGED <<fs, bad>>
\* a write-open that does not truncate (op "W") has no counterpart: the trace is rejected there
TEff == /\ Is("fs") /\ active /\ Ev.op \in {"C", "R", "U"}
        /\ Apply(<<Ev.op, NameOf(Ev)>>)
        /\ Consume /\ UNCHANGED <<runno, cur, todo, active>>
TEnd == /\ Is("fend") /\ active /\ active' = FALSE
        /\ Consume /\ UNCHANGED <<fs, runno, cur, todo, bad>>
TEq == Is("eq") /\ ~active /\ Ev.a = Ev.b /\ Ev.a # "missing" /\ Consume /\ UNCHANGED fvars
TEof == Is("eof") /\ ~active /\ Consume /\ UNCHANGED fvars
TNext == TStart \/ TEff \/ TEnd \/ TEq \/ TEof
TSpec == TInit /\ [][TNext]_tvars
TraceInv == ReadOwn /\ ResultFresh /\ NoOwnTemp
Post == Accepted
AnyRuns == {NoRun}
Big == 1000000
=============================================================================

SPECIFICATION RSpec
CONSTANTS
  Scenarios <- All
  Decoder <- Dec
INVARIANTS RoundTrip Stats PrefixInv NoError
PROPERTY Terminates
CHECK_DEADLOCK FALSE

----------------------------- MODULE MCOligoVec -----------------------------
(***************************************************************************)
(* Exhaustive exploration of OligoVec + the rows the real OligoComputer    *)
(* wrote for a FASTA file holding every enumerated input as one record     *)
(* (binding B1 through the file API): raw counts through the batch writer, *)
(* normalised rows through the memory-mapped and the batch writer.         *)
(* Table entries are sparse rows <<col, value, col, value, ...>>.          *)
(***************************************************************************)
EXTENDS OligoVec, TLC, IOUtils, Json
VARIABLE idx
KEnv == {atoi(IOEnv.VK)}
LEnv == atoi(IOEnv.VL)
ImplRaw  == ndJsonDeserialize(IOEnv.VRAW)
ImplNorm == ndJsonDeserialize(IOEnv.VNORM)       \* mmap writer
ImplNorB == ndJsonDeserialize(IOEnv.VNORB)       \* batch writer
At(t, i) == t[(i \div 1024) + 1][(i % 1024) + 1]

MCInit == OInit /\ idx = 0
MCNext == \E c \in 0..4 : OStep(c) /\ idx' = idx * 5 + c + 1
MCSpec == MCInit /\ [][MCNext]_<<ovars, idx>>

\* sparse row -> value of column p (0 when absent)
ValAt(row, p) == LET hits == {j \in 1..(Len(row) \div 2) : row[2 * j - 1] = p}
                 IN IF hits = {} THEN 0 ELSE row[2 * (CHOOSE j \in hits : TRUE)]
WellFormed(row) == /\ Len(row) % 2 = 0
                   /\ \A j \in 1..(Len(row) \div 2) : row[2 * j - 1] \in 0..(KCount - 1)

ConformsRaw == LET row == At(ImplRaw, idx) IN
               WellFormed(row) /\ \A p \in 0..(KCount - 1) : ValAt(row, p) = vec[p]
NormRowOk(row) == WellFormed(row) /\ \A p \in 0..(KCount - 1) : NormOk(ValAt(row, p), vec[p], total)
ConformsNorm == NormRowOk(At(ImplNorm, idx)) /\ NormRowOk(At(ImplNorB, idx))
\* both writer strategies produce the same bytes for the same record
WritersAgree == At(ImplNorm, idx) = At(ImplNorB, idx)
=============================================================================

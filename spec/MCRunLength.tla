----------------------------- MODULE MCRunLength -----------------------------
(* every run-length encoding of up to MaxRuns runs, lengths k..k+Extra, classes 0..4 (adjacent runs may share a class):     *)
(* the run-length count is the declarative count of the expanded record                                                    *)
EXTENDS RunLength, TLC, IOUtils
MaxRuns == atoi(IOEnv.VRUNS)
Extra == atoi(IOEnv.VEXTRA)
KMax == atoi(IOEnv.VK)
VARIABLES rle, k
Runs(kk) == (0..4) \X (kk..(kk + Extra))
Init == /\ k \in 1..KMax
        /\ rle \in UNION {[1..n -> Runs(k)] : n \in 0..MaxRuns}
Next == UNCHANGED <<rle, k>>
Spec == Init /\ [][Next]_<<rle, k>>
RleAgrees == RleOk(rle, k) /\ RleAgreesOn(rle, k)
=============================================================================

SPECIFICATION TSpec
CONSTANT BCfgSet <- AnyCfg
INVARIANT TraceInv
CONSTRAINT Track
POSTCONDITION Post
CHECK_DEADLOCK FALSE

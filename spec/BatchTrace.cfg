SPECIFICATION TSpec
CONSTANTS
  FinalRule = "buffer_nonempty"
  BCfgSet <- AnyCfg
INVARIANT TraceInv
CONSTRAINT Track
POSTCONDITION Post
CHECK_DEADLOCK FALSE

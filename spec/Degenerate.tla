----------------------------- MODULE Degenerate -----------------------------
(***************************************************************************)
(* C16: every subcommand on degenerate but well-formed input.  A scenario  *)
(* is a subcommand variant plus a list of record SHAPES (relative to the   *)
(* subcommand's k / m / w); the specification says what a clean run looks  *)
(* like: exit status 0, no panic, exactly one row per record for the       *)
(* record-oriented outputs; whole-sequence CGR alone may refuse a record   *)
(* with a non-nucleotide byte.  TLC enumerates the scenarios; the real     *)
(* binary is run on each (B4) and the outcome is judged by Outcome.        *)
(***************************************************************************)
EXTENDS Naturals, Sequences, FiniteSets, TLC, Json, IOUtils
Shapes == {"len0", "len1", "oneN", "kminus1", "k", "wminus1", "w", "allN", "Nfirst", "Nlast"}
Cmds == {"oligo-mmap", "oligo-batch", "oligo-stdin", "oligo-mmap-H", "oligo-batch-H", "cov-alt", "cgr", "ocgr", "ocgr-counts", "cov", "min-s2m-w0", "min-s2m-w", "min-m2s-w0", "min-m2s-w", "ctr"}
NMax == atoi(IOEnv.VN)
\* the container the records arrive in: FASTA, FASTQ (which cannot hold a record without bases), gzip-compressed FASTA
\* (an empty file is then a gzip member with nothing in it; standard input is read as it is, not decompressed)
Conts == {"fa", "fq", "gz"}
Scenarios == [cmd : Cmds, shapes : UNION {[1..n -> Shapes] : n \in 0..NMax}, threads : {1, 3}, cont : Conts]
\* shapes without any base (for the whole-sequence CGR the reference length k is 1, so "k - 1" is empty as well)
NoBase(cmd) == IF cmd = "cgr" THEN {"len0", "kminus1"} ELSE {"len0"}
WellFormed(s) == /\ s.cont = "fq" => \A i \in 1..Len(s.shapes) : s.shapes[i] \notin NoBase(s.cmd)
                 /\ s.cmd = "oligo-stdin" => s.cont # "gz"

HasOther(sh) == \E i \in 1..Len(sh) : sh[i] \in {"oneN", "allN", "Nfirst", "Nlast"}
RecordOriented(c) == c \notin {"min-m2s-w0", "min-m2s-w", "ctr"}
\* the run may refuse (non-zero status / diagnostic) only here
MayRefuse(s) == s.cmd = "cgr" /\ HasOther(s.shapes)

\* judgement of an observed outcome [exit, crashed, hung, rows]
Outcome(s, e) ==
  /\ e.hung = 0
  /\ IF MayRefuse(s) THEN TRUE
     ELSE /\ e.crashed = 0 /\ e.exit = 0
          \* one row per record; a requested header is exactly one more line
          /\ RecordOriented(s.cmd) => e.rows = Len(s.shapes) + (IF s.cmd \in {"oligo-mmap-H", "oligo-batch-H"} THEN 1 ELSE 0)

VARIABLE sc
Init == sc \in Scenarios /\ WellFormed(sc)
Next == UNCHANGED sc
Spec == Init /\ [][Next]_sc
Out == PrintT(<<"DEG", ToJson(sc)>>)
=============================================================================

------------------------------- MODULE MinOps -------------------------------
(***************************************************************************)
(* Declarative definition of minimiser runs (C09, C10, C18), as constant   *)
(* operators of (sequence, w, m): the maximal runs of consecutive clean    *)
(* w-windows having the same minimiser (least canonical m-mer), as         *)
(* <<value, start, end>> with 0-based [start, end).                        *)
(***************************************************************************)
EXTENDS Nt
MmerAt(s, j, m) == Canon(SubSeq(s, j, j + m - 1))
\* least canonical m-mer of the window starting at i (linear scan; equal to the CHOOSE-minimum of the set of its m-mers)
WinMinWM(s, i, w, m) ==
  LET best[j \in i..(i + w - m)] ==
        IF j = i THEN MmerAt(s, i, m)
        ELSE LET p == best[j - 1]
                 c == MmerAt(s, j, m)
             IN IF LexLess(c, p) THEN c ELSE p
  IN best[i + w - m]
RunsWM(s, w, m) ==
  IF w < m \/ m < 1 THEN <<>>
  ELSE
  LET n == Len(s) - w + 1      \* number of window starts
      acc[i \in 0..(IF n > 0 THEN n ELSE 0)] ==
        IF i = 0 THEN <<>>
        ELSE IF ~CleanWin(s, i, w) THEN acc[i-1]
        ELSE LET v == WinMinWM(s, i, w, m)
                 a == acc[i-1]
                 k == Len(a)
             IN IF k > 0 /\ a[k][1] = v /\ a[k][3] = i + w - 2
                THEN [a EXCEPT ![k] = <<v, a[k][2], i + w - 1>>]
                ELSE Append(a, <<v, i - 1, i + w - 1>>)
  IN acc[IF n > 0 THEN n ELSE 0]
=============================================================================

SPECIFICATION RSpec
CONSTANTS
  Scenarios <- All
  Decoder <- DecFirst
INVARIANTS RoundTrip Stats PrefixInv NoError
PROPERTY Terminates
CHECK_DEADLOCK FALSE

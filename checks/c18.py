"""C18 - minimiser+k-mers iterator agrees with the plain one and conserves all w-mers."""
import minicommon as mc


def run(ctx):
    ctx.rule = ("B1: every string over {A,C,G,T/U,other} up to L for each (w,m): the model's runs equal the declarative runs "
                "(so both iterators, bound to the same model, agree), KConcat (concatenated k-mer lists = canonical w-mers of "
                "the prefix) in every state, and equality of the real KmerMinimiserGenerator and MinimiserGenerator outputs "
                "with the model; B2: random (w,m), m<=w<=31, every next() of the real KmerMinimiserGenerator validated incl. "
                "internal state and w-mers as 32-digit words. non-trivial = input with at least one emitted run")
    ctx.trusted += ["harness enumeration order = TLC's index", "TLC, Json/IOUtils community modules"]
    L = 8 if ctx.thorough() else 7
    for (w, m) in [(1, 1), (2, 1), (3, 1), (3, 2), (4, 2), (4, 4), (5, 3)]:
        if not mc.mc_table(ctx, w, m, L):
            return
    for (w, m) in ([(5, 1), (6, 2), (8, 3), (7, 7)] if ctx.thorough() else [(5, 1), (7, 3)]):
        if not mc.mc_table(ctx, w, m, 12 if ctx.thorough() else 10, alpha="014"):
            return
    if ctx.thorough():
        mc.traces(ctx, "kmermin", 16, 150, 600)
    else:
        mc.traces(ctx, "kmermin", 8, 40, 300)
    ctx.exhaustive = False

"""C16 - every subcommand ends cleanly with one row per record on degenerate input."""
import json, os, random, re, shutil
import vlib
import factcommon as fc

K = {"oligo-mmap": 4, "oligo-batch": 4, "oligo-stdin": 4, "oligo-mmap-H": 4, "oligo-batch-H": 4, "cov-alt": 7, "cgr": 1, "ocgr": 3, "ocgr-counts": 3, "cov": 7, "ctr": 10,
     "min-s2m-w0": 7, "min-s2m-w": 7, "min-m2s-w0": 7, "min-m2s-w": 7}
MINW = 12


def seq_of(shape, k, w, rng):
    clean = lambda n: "".join(rng.choice("ACGTacgtU") for _ in range(max(n, 0)))
    return {"len0": "", "len1": rng.choice("ACGT"), "oneN": "N", "kminus1": clean(k - 1), "k": clean(k), "wminus1": clean(w - 1), "w": clean(w),
            "allN": "N" * k, "Nfirst": "N" + clean(w), "Nlast": clean(w) + "N"}[shape]


def argv(s, inp, out):
    c, t = s["cmd"], ["-t", str(s["threads"])]
    if c.startswith("oligo"):
        a = ["comp", "oligo", "-i", "-" if c == "oligo-stdin" else inp, "-o", out, "-k", "4"] + t
        return a + (["-c"] if c.startswith("oligo-batch") else []) + (["-H"] if c.endswith("-H") else [])
    if c == "cgr":
        return ["comp", "cgr", "-i", inp, "-o", out] + t
    if c.startswith("ocgr"):
        return ["comp", "cgr", "-i", inp, "-o", out, "-k", "3"] + t + (["-c"] if c == "ocgr-counts" else [])
    if c == "cov":
        return ["cov", "-i", inp, "-o", out, "-k", "7", "-s", "5", "-c", "5"] + t
    if c == "cov-alt":
        # the counting input is a separate file without any record
        return ["cov", "-i", inp, "-a", inp + ".empty.fa", "-o", out, "-k", "7", "-s", "5", "-c", "5"] + t
    if c.startswith("min"):
        return ["min", "-i", inp, "-o", out, "-m", "7", "-w", str(0 if c.endswith("w0") else MINW), "-p", c.split("-")[1]] + t
    return ["ctr", "-i", inp, "-o", out, "-k", "10"] + t


def result_file(s, out):
    return {"cov": os.path.join(out, "kmers.vectors"), "cov-alt": os.path.join(out, "kmers.vectors"),
            "ctr": os.path.join(out, "kmers.counts")}.get(s["cmd"], out)


def run(ctx):
    ctx.rule = ("TLC enumerates the degenerate scenarios (12 subcommand variants x every list of <= N record shapes from {length 0, 1, k-1, k, "
                "w-1, w, all-N, N first, N last} incl. the empty file x threads {1,3}) with the outcome a clean run must have; B4: each "
                "replayed scenario is materialised as a FASTA, FASTQ or gzip-compressed FASTA file and run through the real binary: no panic / abort / hang, exit 0 (whole-"
                "sequence CGR may refuse non-nucleotide records), one row per record; the rows themselves are judged by the specifications "
                "that own them (oligo rows: FactsTrace Count - all-zero where nothing can be computed; minimiser listings: MinOutTrace - no "
                "placeholder, runs exactly the specification's). non-trivial = scenarios executed")
    ctx.trusted += ["shape -> sequence materialisation (checks/c16.py)", "row counting = newline counting", "TLC, Json/IOUtils community modules"]
    N = 3 if ctx.thorough() else 2
    r = vlib.tlc("Degenerate", env={"VN": N}, workers=1, rundir=ctx.rundir, timeout=1200)
    ctx.add_mc("scenario enumeration (<= %d records)" % N, r)
    scen = []
    for line in r.printed:
        m = re.match(r'^<<"DEG", "(.*)">>$', line)
        if m:
            scen.append(json.loads(json.loads('"' + m.group(1) + '"')))
    rng = random.Random(ctx.seed)
    want = 30000 if ctx.thorough() else 5200
    # always keep the empty file and the single-shape scenarios; sample the rest
    small = [s for s in scen if len(s["shapes"]) <= 1]
    big = [s for s in scen if len(s["shapes"]) > 1]
    rng.shuffle(big)
    chosen = small + big[:max(0, want - len(small))]
    cli = vlib.build_cli()
    vlib.build_harness()

    def one(iv):
        i, s = iv
        r2 = random.Random(ctx.seed * 100003 + i)
        k = K[s["cmd"]]
        w = MINW if s["cmd"].startswith("min") and not s["cmd"].endswith("w0") else k + 3
        seqs = [seq_of(sh, k, w, r2) for sh in s["shapes"]]
        fa = ctx.path("deg_%d.fa" % i)          # the records as plain FASTA (what the decoders read)
        with open(fa, "w") as f:
            for j, q in enumerate(seqs):
                f.write(">r%d\n%s\n" % (j, q))
        cont = s.get("cont", "fa")
        inp = fa
        if cont == "fq":
            inp = ctx.path("deg_%d.fq" % i)
            with open(inp, "w") as f:
                for j, q in enumerate(seqs):
                    f.write("@r%d\n%s\n+\n%s\n" % (j, q, "I" * len(q)))
        elif cont == "gz":
            import gzip
            inp = ctx.path("deg_%d.fa.gz" % i)
            with open(fa, "rb") as f, gzip.open(inp, "wb") as g:
                g.write(f.read())
        open(inp + ".empty.fa", "w").close()
        out = ctx.path("deg_out_%d" % i)
        if os.path.isdir(out):
            shutil.rmtree(out)
        elif os.path.exists(out):
            os.remove(out)
        stdin = open(inp, "rb") if s["cmd"] == "oligo-stdin" else None
        p = vlib.sh([cli] + argv(s, inp, out), timeout=90, stdin=stdin)
        if stdin:
            stdin.close()
        err = (p.stderr or b"").decode(errors="replace")
        rf = result_file(s, out)
        rows = open(rf, "rb").read().count(b"\n") if os.path.exists(rf) else -1
        ev = {"ev": "deg", "s": s, "exit": p.returncode if p.returncode is not None else -1, "hung": 1 if p.timeout else 0,
              "crashed": 1 if ("panicked" in err or (p.returncode is not None and (p.returncode < 0 or p.returncode >= 101))) else 0,
              "rows": rows, "stderr": err[-160:], "seqs": seqs}
        extra = None
        if p.returncode == 0 and os.path.exists(rf):
            if s["cmd"].startswith("min"):
                q = vlib.sh([vlib.KVH, "decode", "minout", fa, rf, s["cmd"].split("-")[1], str(0 if s["cmd"].endswith("w0") else MINW), "7"], timeout=60)
                extra = ("min", q.stdout.decode())
            elif s["cmd"].startswith("oligo"):
                q = vlib.sh([vlib.KVH, "decode", "oligo", fa, rf, "4", "0" if s["cmd"].startswith("oligo-batch") else "1", " ",
                             "1" if s["cmd"].endswith("-H") else "0", "cli-degenerate"], timeout=60)
                extra = ("oligo", q.stdout.decode())
            elif s["cmd"].startswith("ocgr"):
                # frequencies of the k-mer CGR rows: all-zero where nothing can be computed, never NaN
                q = vlib.sh([vlib.KVH, "decode", "ocgr", fa, rf, "3", "9", "0" if s["cmd"] == "ocgr-counts" else "1", "cli-degenerate"], timeout=60)
                extra = ("oligo", q.stdout.decode())
        for pth in (fa, inp, inp + ".empty.fa", out):
            if os.path.isdir(pth):
                shutil.rmtree(pth)
            elif os.path.exists(pth):
                os.remove(pth)
        return ev, extra
    res = vlib.parallel(one, list(enumerate(chosen)), width=8)
    d = ctx.path("deg.ndjson")
    with open(d, "w") as f:
        for ev, _ in res:
            f.write(json.dumps(ev) + "\n")
        f.write('{"ev":"eof"}\n')
    ok = vlib.validate_trace(ctx, "DegTrace", d, "B4 replay of %d of %d scenarios through the CLI: exit / crash / hang / rows" % (len(chosen), len(scen)), "deg")
    for kind, module, name, runev in (("min", "MinOutTrace", "minimiser listings of degenerate inputs (no placeholder)", "reset"),
                                      ("oligo", "FactsTrace", "oligo rows of degenerate inputs (all-zero where nothing can be computed)", "orec")):
        pth = ctx.path("deg_%s.ndjson" % kind)
        with open(pth, "w") as f:
            for _, extra in res:
                if extra and extra[0] == kind:
                    f.write(extra[1])
            f.write('{"ev":"eof"}\n')
        vlib.validate_trace(ctx, module, pth, name, runev)
    ctx.evaluations += len(chosen)
    ctx.nontrivial += len(chosen)
    ctx.sample({"stage": "deg", "event": res[0][0]})
    ctx.sample({"stage": "deg", "event": res[len(res) // 2][0]})
    ctx.exhaustive = False

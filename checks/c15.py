"""C15 - command-line options mean what they say and nothing more."""
import hashlib, json, os, random, re, shutil
import vlib

DELIM = {"csv": ",", "tsv": "\t", "spc": " "}


def window(o):
    return {"zero": 0, "less": o["m"] - 1, "equal": o["m"], "plus1": o["m"] + 1, "big": o["m"] + 30}[o["wrel"]]


def args_of(o, inp, out, alt):
    """the command line a user would type for option vector o"""
    c = o["cmd"]
    t = ["-t", str(o["threads"])]
    if c == "oligo":
        # (a number may be written with leading zeros or a plus sign)
        ks = {16: "0%d", 1: "+%d", 64: "000%d"}.get(o["threads"], "%d") % o["k"]
        a = ["comp", "oligo", "-i", "-" if o["stdin"] else inp, "-o", out, "-k", ks, "-p", o["preset"]] + t
        # flags as separate tokens or as one cluster of short options, in either order
        if o["counts"] and o["header"] and o["threads"] in (0, 4):
            return a + (["-Hc"] if o["threads"] == 0 else ["-cH"])
        return a + (["-c"] if o["counts"] else []) + (["-H"] if o["header"] else [])
    if c == "cgr":
        a = ["comp", "cgr", "-i", inp, "-o", out] + t
        if o["k"] != -1:
            a += ["-k", str(o["k"])]
        if o["vecsize"] != -1:
            a += ["-v", str(o["vecsize"])]
        return a + (["-c"] if o["counts"] else [])
    if c == "cov":
        a = ["cov", "-i", inp, "-o", out, "-k", str(o["k"]), "-s", str(o["bs"]), "-c", str(o["bc"]), "-m", str(o["memory"]), "-p", o["preset"]] + t
        return a + (["--counts"] if o["counts"] else []) + (["-a", alt] if o["alt"] else [])
    if c == "min":
        return ["min", "-i", inp, "-o", out, "-m", str(o["m"]), "-w", str(window(o)), "-p", o["preset"]] + t
    if c == "ctr":
        return ["ctr", "-i", inp, "-o", out, "-k", str(o["k"]), "-m", str(o["memory"])] + t + (["-a"] if o["acgt"] else [])


def result_file(o, out):
    if o["cmd"] == "cov":
        return os.path.join(out, "kmers.vectors")
    if o["cmd"] == "ctr":
        return os.path.join(out, "kmers.counts")
    return out


def norm_bytes(o, data):
    """digest input: ordered outputs as they are; unordered ones (ctr counts, min listings) as a sorted line set with
    the item lists inside an m2s line sorted as well"""
    if o["cmd"] == "ctr":
        return b"\n".join(sorted(data.split(b"\n")))
    if o["cmd"] == "min":
        lines = []
        for ln in data.split(b"\n"):
            if o["preset"] == "m2s" and b"\t[" in ln:
                k, rest = ln.split(b"\t", 1)
                items = sorted(re.findall(rb"\([^)]*\)", rest))
                ln = k + b"\t" + b",".join(items)
            lines.append(ln)
        return b"\n".join(sorted(lines))
    return data


def digest(o, path):
    if not os.path.exists(path):
        return "missing"
    return hashlib.sha256(norm_bytes(o, open(path, "rb").read())).hexdigest()[:16]


def clean(p):
    if os.path.isdir(p):
        shutil.rmtree(p)
    elif os.path.exists(p):
        os.remove(p)


def run_cli(ctx, cli, o, inp, alt, tag, env=("file", "file", "abs")):
    """runs option vector o; env = (kind of file behind -i, kind behind -o, spelling of the output location) - see Cli.tla"""
    import subprocess
    src, dst, spell = env
    if o["cmd"] == "cgr" and o["k"] == -1:
        inp = inp + ".clean.fa"       # whole-sequence CGR refuses non-nucleotide bytes (C11): give it clean records
    out = ctx.path("cli_%s" % tag)
    clean(out)
    rel = os.path.relpath(out, ctx.rundir)
    out_arg = {"abs": out, "rel": rel, "dotrel": "./" + rel}[spell]
    in_arg, stdin, feeder, ff = inp, None, None, None
    if o.get("stdin"):
        stdin = open(inp, "rb")
    elif src == "fifo":
        ff = ctx.path("fifo_%s.fa" % tag)
        clean(ff)
        os.mkfifo(ff)
        feeder = subprocess.Popen(["sh", "-c", 'cat "$0" > "$1"', inp, ff])
        in_arg = ff
    elif src == "devstdin":
        stdin = open(inp, "rb")
        in_arg = "/dev/stdin"
    if dst == "pipe":
        out_arg = "/dev/stdout"
    p = vlib.sh([cli] + args_of(o, in_arg, out_arg, alt), timeout=600, stdin=stdin, cwd=ctx.rundir)
    if stdin:
        stdin.close()
    if feeder:
        feeder.kill()
        feeder.wait()
        os.remove(ff)
    if dst == "pipe" and p.returncode == 0:
        with open(out, "wb") as f:
            f.write(p.stdout or b"")
    return p, out


def run(ctx):
    ctx.rule = ("model: TLC enumerates the full cross product of the Cli option vectors (every numeric option just outside, at and inside "
                "its range, presets, flags, threads {0,1,4,16}, stdin, alt-input; 9600 vectors) and checks the wiring meta-properties; "
                "B4: each replayed vector is run against the real binary on a seed-derived input: refused <=> ~Accepts (diagnostic and no "
                "output), and for accepted vectors the CLI result equals the result of the LIBRARY configured by Wire(o) as printed by TLC "
                "(bytes; sorted line sets for ctr/min); relational pairs: presets (delimiter-normalised), header (body), threads, acgt "
                "(decoded). quick replays a seed-chosen slice covering every option value; thorough replays many more. non-trivial = vectors executed")
    ctx.trusted += ["option vector -> argv mapping (checks/c15.py args_of)", "normalisation of unordered outputs before hashing", "TLC, Json/IOUtils community modules"]
    r = vlib.tlc("MCCli", workers=1, rundir=ctx.rundir, timeout=1200)
    ctx.add_mc("mc Cli: all option vectors, wiring meta-properties", r)
    if r.violated:
        ctx.violation("mc_cli", {"invariant": r.violated}, {"cex": r.cex[-1] if r.cex else None})
        return
    vecs = []
    for line in r.printed:
        m = re.match(r'^<<"VEC", "(.*)">>$', line)
        if m:
            vecs.append(json.loads(json.loads('"' + m.group(1) + '"')))     # TLC prints the JSON text as a string literal
    rng = random.Random(ctx.seed)
    # slice: every refused vector class + a sample covering every option value
    want = 6000 if ctx.thorough() else 1500
    by = {}
    for v in vecs:
        by.setdefault((v["o"]["cmd"], v["accept"]), []).append(v)
    chosen = []
    for key, lst in sorted(by.items()):
        rng.shuffle(lst)
        share = max(12, want * len(lst) // len(vecs))
        # make sure every value of every option occurs
        seen = set()
        rest = []
        for v in lst:
            vals = {(k, str(x)) for k, x in v["o"].items()}
            if not vals <= seen:
                chosen.append(v)
                seen |= vals
            else:
                rest.append(v)
        # refused vectors cost milliseconds: take many more of them
        if not key[1]:
            share = share * (6 if ctx.thorough() else 3)
        else:
            # accepted vectors are the ones that exercise the wiring (and the environment rotation): a floor per subcommand
            share = max(share, 500 if ctx.thorough() else 130)
        chosen += rest[:max(0, share - len(seen) // 3)]
    cli = vlib.build_cli()
    vlib.build_harness()
    inp = ctx.path("in.fa")
    alt = ctx.path("alt.fa")
    vlib.kvh(["gen", "fasta", ctx.seed, 6, 150, inp])
    vlib.kvh(["gen", "fasta", ctx.seed + 99, 5, 150, alt])
    vlib.kvh(["gen", "fasta", ctx.seed, 6, 150, inp + ".clean.fa", "clean"])
    ev = ctx.path("cli.ndjson")

    def one(iv):
        i, v = iv
        o = v["o"]
        # the environment rotates through what the command supports (Cli!SrcKinds / DstKinds / Spellings); a refused vector is
        # refused in any environment, but only a regular output file can show that nothing was produced
        src = v["src"][i % len(v["src"])]
        dst = v["dst"][(i // 2) % len(v["dst"])] if v["accept"] else "file"
        spell = v["spell"][(i // 3) % len(v["spell"])]
        p, out = run_cli(ctx, cli, o, inp, alt, "v%d" % i, (src, dst, spell))
        rf = result_file(o, out)
        created = os.path.exists(rf)
        refused = (p.returncode != 0) or (len(p.stderr.strip()) > 0 and not created)
        events = [{"ev": "cli", "o": o, "env": [src, dst, spell], "refused": 1 if refused else 0, "created": 1 if created else 0, "exit": p.returncode,
                   "stderr": p.stderr.decode(errors="replace")[:120]}]
        if v["accept"] and created:
            lo = ctx.path("lib_v%d" % i)
            clean(lo)
            linp = inp + ".clean.fa" if (o["cmd"] == "cgr" and o["k"] == -1) else inp
            q = vlib.sh([vlib.KVH, "lib", json.dumps(v["wire"]), linp, lo, alt], timeout=600)
            events.append({"ev": "eq", "what": "cli=lib", "o": o, "a": digest(o, rf), "b": digest(o, result_file(o, lo)) if q.returncode == 0 else "lib-failed"})
            clean(lo)
        clean(out)
        return events
    allev = []
    for evs in vlib.parallel(one, list(enumerate(chosen)), width=8):
        allev += evs
    # relational pairs on accepted vectors
    def rel(base, field, values, what, transform=None):
        digs = []
        for j, val in enumerate(values):
            o = dict(base)
            o[field] = val
            p, out = run_cli(ctx, cli, o, inp, alt, "rel_%s_%d" % (what, j))
            rf = result_file(o, out)
            data = open(rf, "rb").read() if os.path.exists(rf) else None
            if data is None:
                digs.append("missing")
            else:
                data = norm_bytes(o, transform(o, data) if transform else data)
                digs.append(hashlib.sha256(data).hexdigest()[:16])
            clean(out)
        for d in digs[1:]:
            allev.append({"ev": "eq", "what": what, "o": base, "a": digs[0], "b": d})
    oligo = {"cmd": "oligo", "k": 4, "preset": "csv", "counts": False, "header": False, "threads": 1, "stdin": False}
    cov = {"cmd": "cov", "k": 7, "bs": 5, "bc": 5, "memory": 6, "counts": False, "preset": "csv", "alt": False, "threads": 1}
    ctr = {"cmd": "ctr", "k": 10, "memory": 6, "acgt": False, "threads": 1}
    mn = {"cmd": "min", "m": 7, "wrel": "big", "preset": "s2m", "threads": 1}
    undelim = lambda o, d: d.replace(DELIM[o["preset"]].encode(), b";")
    for base in (oligo, dict(oligo, counts=True), cov, dict(cov, counts=True)):
        rel(base, "preset", ["csv", "tsv", "spc"], "preset", undelim)
    body = lambda o, d: d.split(b"\n", 1)[1] if o["header"] else d
    for base in (oligo, dict(oligo, counts=True), dict(oligo, stdin=True)):
        rel(base, "header", [False, True], "header-body", body)
    for base in (oligo, dict(oligo, counts=True), cov, ctr, mn, dict(mn, preset="m2s"), {"cmd": "cgr", "k": 3, "counts": False, "vecsize": -1, "threads": 1},
                 {"cmd": "cgr", "k": -1, "counts": False, "vecsize": -1, "threads": 1}):
        rel(base, "threads", [1, 0, 4, 16, 64], "threads")
    # the environment is not an option either: variables that libraries underneath look at (thread pool, terminal, colours,
    # locale) must not change any result
    envs = [{}, {"RAYON_NUM_THREADS": "1"}, {"RAYON_NUM_THREADS": "7", "NO_COLOR": "1"}, {"TERM": "dumb", "COLUMNS": "20", "LINES": "3"},
            {"LC_ALL": "de_DE.UTF-8", "LANG": "de_DE.UTF-8", "LC_NUMERIC": "de_DE.UTF-8"}, {"CLICOLOR_FORCE": "1", "RUST_LOG": "trace", "RUST_BACKTRACE": "full"}]
    for bj, base in enumerate((oligo, dict(oligo, counts=True, threads=0), dict(cov, threads=0), dict(ctr, threads=0), dict(mn, threads=0),
                               {"cmd": "cgr", "k": 3, "counts": False, "vecsize": -1, "threads": 0})):
        digs = []
        for j, env in enumerate(envs):
            out = ctx.path("cli_env_%d_%d" % (bj, j))
            clean(out)
            vlib.sh([cli] + args_of(base, inp, out, alt), timeout=600, env=env)
            digs.append(digest(base, result_file(base, out)))
            clean(out)
        for j, d in enumerate(digs[1:]):
            allev.append({"ev": "eq", "what": "environment %s" % json.dumps(envs[j + 1]), "o": base, "a": digs[0], "b": d})

    def decode_acgt(o, d):
        out = []
        for ln in d.split(b"\n"):
            if not ln:
                continue
            k, _, c = ln.partition(b"\t")
            if o["acgt"]:
                # a k-mer that is not ACGT text stays as it is (and then differs from the numeric rendering's line)
                if k and all(ch in b"ACGT" for ch in k):
                    x = 0
                    for ch in k:
                        x = x * 4 + b"ACGT".index(bytes([ch]))
                    k = str(x).encode()
                else:
                    k = b"not-acgt-text:" + k
            out.append(k + b"\t" + c)
        return b"\n".join(out)
    rel(ctr, "acgt", [False, True], "acgt", decode_acgt)
    # stdin input: the format is sniffed from the stream; the same records as FASTA and as FASTQ, through stdin and as files
    def recs_of(fa):
        out = []
        for chunk in open(fa, "rb").read().split(b">")[1:]:
            h, sq = chunk.split(b"\n", 1)
            out.append((h, sq.replace(b"\n", b"")))
        return [r for r in out if r[1]]
    rr = recs_of(inp)
    fa2, fq2 = ctx.path("std.fa"), ctx.path("std.fq")
    with open(fa2, "wb") as f:
        for h, sq in rr:
            f.write(b">" + h + b"\n" + sq + b"\n")
    with open(fq2, "wb") as f:
        for h, sq in rr:
            f.write(b"@" + h + b"\n" + sq + b"\n+\n" + b"I" * len(sq) + b"\n")
    digs = []
    for j, (path, stdin) in enumerate([(fa2, False), (fa2, True), (fq2, False), (fq2, True)]):
        o = dict(oligo, stdin=stdin)
        out = ctx.path("cli_std_%d" % j)
        clean(out)
        fh = open(path, "rb") if stdin else None
        vlib.sh([cli] + args_of(o, path, out, alt), timeout=600, stdin=fh)
        if fh:
            fh.close()
        digs.append(digest(o, out))
        clean(out)
    for d in digs[1:]:
        allev.append({"ev": "eq", "what": "file/stdin x fasta/fastq", "o": dict(oligo), "a": digs[0], "b": d})
    # what is behind -i need not be a regular file: a named pipe and /dev/stdin, for the commands that read their input once
    # (counting and coverage read it twice; the minimiser listings need a suffix to tell the format)
    import subprocess, threading
    mins = {"cmd": "min", "m": 7, "wrel": "plus1", "preset": "s2m", "threads": 2}
    cgr1 = {"cmd": "cgr", "k": -1, "vecsize": -1, "counts": False, "threads": 2}
    cgrk = {"cmd": "cgr", "k": 3, "vecsize": -1, "counts": True, "threads": 2}
    clean_fa = inp + ".clean.fa"
    once = [(dict(oligo, counts=True), fa2, ["fifo", "devstdin"]), (cgr1, clean_fa, ["fifo", "devstdin"]), (cgrk, fa2, ["fifo", "devstdin"]),
            (mins, fa2, ["fifo"]), (dict(mins, preset="m2s"), fa2, ["fifo"])]
    for j, (oc, src, kinds) in enumerate(once):
        out = ctx.path("cli_kind_%d" % j)
        clean(out)
        vlib.sh([cli] + args_of(oc, src, out, alt), timeout=600)
        ref = digest(oc, out)
        clean(out)
        for kind in kinds:
            if kind == "fifo":
                ff = ctx.path("pipe_in.fa")
                clean(ff)
                os.mkfifo(ff)
                feeder = subprocess.Popen(["sh", "-c", 'cat "$0" > "$1"', src, ff])
                try:
                    vlib.sh([cli] + args_of(oc, ff, out, alt), timeout=120)
                except Exception:
                    pass
                feeder.kill()
                feeder.wait()
                os.remove(ff)
            else:
                with open(src, "rb") as fh:
                    vlib.sh([cli] + args_of(oc, "/dev/stdin", out, alt), timeout=120, stdin=fh)
            d = digest(oc, out)
            clean(out)
            allev.append({"ev": "eq", "what": "input behind -i: regular file vs %s" % kind, "o": dict(oc), "a": ref, "b": d})
    # what is behind -o need not be a regular file either: the stream writers (counts, CGR, minimiser listings) into a pipe
    streamers = [(dict(oligo, counts=True), fa2), (cgr1, clean_fa), (cgrk, fa2), (mins, fa2), (dict(mins, preset="m2s"), fa2)]
    for j, (o, src) in enumerate(streamers):
        out = ctx.path("cli_okind_%d" % j)
        clean(out)
        vlib.sh([cli] + args_of(o, src, out, alt), timeout=600)
        ref = digest(o, out)
        clean(out)
        pr = subprocess.run([cli] + args_of(o, src, "/dev/stdout", alt), stdout=subprocess.PIPE, stderr=subprocess.PIPE, timeout=600)
        with open(out, "wb") as f:
            f.write(pr.stdout)
        d = digest(o, out) if pr.returncode == 0 else "exit %d" % pr.returncode
        clean(out)
        allev.append({"ev": "eq", "what": "output behind -o: regular file vs /dev/stdout into a pipe", "o": o, "a": ref, "b": d})
    # the pip flavour's run_cli() (pip/src/lib.rs) is the same cli() behind a Python entry point: a handful of accepted and
    # refused vectors through it must behave like the binary
    import sys
    pyd = vlib.build_py()
    picks = [v for v in chosen if v["accept"]][:6] + [v for v in chosen if not v["accept"]][:4]
    for j, v in enumerate(picks):
        o = v["o"]
        if o.get("stdin"):
            continue
        p1, out1 = run_cli(ctx, cli, o, inp, alt, "bin_%d" % j)
        d1 = digest(o, result_file(o, out1))
        clean(out1)
        out2 = ctx.path("pycli_%d" % j)
        clean(out2)
        linp = inp + ".clean.fa" if (o["cmd"] == "cgr" and o["k"] == -1) else inp
        p2 = vlib.sh([sys.executable, os.path.join(vlib.ROOT, "py", "runcli.py")] + args_of(o, linp, out2, alt), env={"PYK_DIR": pyd}, timeout=600)
        d2 = digest(o, result_file(o, out2))
        clean(out2)
        allev.append({"ev": "eq", "what": "binary = pykmertools.run_cli()", "o": o, "a": d1 if v["accept"] else "refused", "b": d2 if v["accept"] else
                      ("refused" if d2 == "missing" else "created")})
    with open(ev, "w") as f:
        for e in allev:
            f.write(json.dumps(e) + "\n")
        f.write(json.dumps({"ev": "eof"}) + "\n")
    vlib.validate_trace(ctx, "CliTrace", ev, "B4 replay of %d option vectors + relational pairs" % len(chosen), "cli")
    ctx.evaluations += len(chosen)
    ctx.nontrivial += len(chosen)
    for e in allev[:2]:
        ctx.sample({"stage": "cli", "event": e})
    ctx.exhaustive = False

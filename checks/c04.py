"""C04 - oligo vector of a record counts its canonical k-mers, raw or normalised."""
import json, os
import vlib
import factcommon as fc

DELIM = {"csv": ",", "tsv": "\t", "spc": " "}


def mc(ctx, k, L):
    env = {"VK": k, "VL": L}
    files = []
    for mode, var in (("raw", "VRAW"), ("normmmap", "VNORM"), ("normbatch", "VNORB")):
        t = ctx.path("oligo_%s_k%d.ndjson" % (mode, k))
        vlib.kvh(["table", "oligo", k, L, ctx.seed, mode, ctx.rundir], out=t)
        env[var] = t
        files.append(t)
    r = vlib.tlc("MCOligoVec", env=env, rundir=ctx.rundir, coverage=True, timeout=3400)
    ctx.add_mc("mc+file-API tables k=%d L<=%d (raw, norm-mmap, norm-batch)" % (k, L), r)
    n, ne = vlib.table_nonempty(files[0])
    ctx.evaluations += n
    ctx.nontrivial += ne
    if r.violated:
        st = vlib.parse_state(r.cex[-1]) if r.cex else {}
        inp = st.get("inp")
        ctx.violation("mc_table", {"k": k, "input": "".join("ACGTN"[c] for c in inp) if isinstance(inp, list) else None,
                                   "invariant": r.violated}, {"model_vec": st.get("vec"), "total": st.get("total")})
        return False
    if k == 2:
        with open(files[0]) as f:
            row = json.loads(f.readline())
        ctx.sample({"stage": "mc_table", "k": 2, "input_index": 200, "impl_sparse_row_raw": row[200]})
    for f in files:
        os.remove(f)
    return True


def cli_rows(ctx, n, maxlen):
    cli = vlib.build_cli()
    evs = []
    for j, k in enumerate((3, 4, 5, 6, 7)):
        fa = ctx.path("cli_k%d.fa" % k)
        vlib.kvh(["gen", "fasta", ctx.seed * 100 + k, n, maxlen, fa, "ratio%d" % k])
        for counts in (False, True):
            preset = list(DELIM)[(j + counts) % 3]
            out = ctx.path("cli_k%d_%d.out" % (k, counts))
            cmd = [cli, "comp", "oligo", "-i", fa, "-o", out, "-k", str(k), "-p", preset, "-t", str(1 + j)]
            if counts:
                cmd.append("-c")
            p = vlib.sh(cmd, timeout=300)
            ev = ctx.path("cli_k%d_%d.ndjson" % (k, counts))
            if p.returncode != 0 or not os.path.exists(out):
                ctx.violation("cli", {"cmd": cmd[1:], "exit": p.returncode}, {"stderr": p.stderr.decode(errors="replace")[-500:]})
                continue
            vlib.kvh(["decode", "oligo", fa, out, k, 0 if counts else 1, DELIM[preset], 0, "cli"], out=ev)
            evs.append(ev)
    return fc.cat_eof(evs, ctx.path("cli_rows.ndjson"))


def run(ctx):
    ctx.rule = ("B1: every string over {A,C,G,T/U,other} up to L as one FASTA record each, run through OligoComputer's file API "
                "(counts via the batch writer; normalised via the memory-mapped and the batch writer), rows compared by TLC with "
                "the OligoVec model (VecIsCount, totals, index range, RC invariance; normalised digits by scaled-integer "
                "inequality); B2: random records with RC / case / T<->U variants, k=1..8, library file API, CLI (k=3..7) and Python, "
                "each row judged by the declarative Count. non-trivial = records with at least one valid window (counted in the table)")
    ctx.trusted += ["row text -> integer decoding (kvh decode / sparse_row)", "TLC, Json/IOUtils community modules"]
    if ctx.thorough():
        plan = [(1, 8), (2, 8), (3, 7)]
    else:
        plan = [(1, 6), (2, 6), (3, 6)]
    for k, L in plan:
        if not mc(ctx, k, L):
            return
    # records of millions of bases, described by run lengths: the count from the runs is the declarative count (lemma, TLC) ...
    env = {"VRUNS": 3, "VEXTRA": 3 if ctx.thorough() else 2, "VK": 4 if ctx.thorough() else 3}
    r = vlib.tlc("MCRunLength", env=env, rundir=ctx.rundir, timeout=3000)
    ctx.add_mc("lemma RleAgrees: run-length count = declarative count, <=%(VRUNS)s runs, lengths k..k+%(VEXTRA)s, k<=%(VK)s" % env, r)
    if r.violated:
        raise vlib.ToolError("the run-length lemma does not hold on the specification itself: " + str(r.violated))
    # ... and the rows of a 17-million-base record (more than 2^24 windows), a 65 700-base record and a short one
    b = ctx.path("big_rows.ndjson")
    vlib.kvh(["trace", "oligobig", ctx.seed, 1, ctx.rundir], out=b)
    fc.validate(ctx, b, "rows of records given by run lengths (17 million bases: totals beyond 2^24, counts beyond 2^23), k=1,2,3,5,8", "obig")
    t = ctx.path("lib_rows.ndjson")
    vlib.kvh(["trace", "oligo", ctx.seed, 40 if ctx.thorough() else 10, 600 if ctx.thorough() else 300, ctx.rundir], out=t)
    fc.validate(ctx, t, "library file API rows k=1..8 raw+norm", "orec")
    fc.sample_events(ctx, t, 1, "lib rows")
    c = cli_rows(ctx, 20 if ctx.thorough() else 6, 400)
    fc.validate(ctx, c, "CLI rows k=3..7 counts/default", "orec")
    # Python binding (vectorise_one), same records, same judge
    fa = ctx.path("py.fa")
    vlib.kvh(["gen", "fasta", ctx.seed + 7, 10, 300, fa, "ratio1"])
    pe = ctx.path("py_rows.ndjson")
    fc.pydriver(ctx, ["oligo", fa, 1, 8], pe)
    fc.validate(ctx, pe, "python vectorise_one k=1..8 raw+norm", "orec")
    ctx.exhaustive = False

"""C10 - minimiser outputs: s2m lists each record's runs; m2s is its exact inversion."""
import json, os, re
import vlib
import mmcommon as mm
import factcommon as fc


def replay(ctx, mode, stride):
    path, total = mm.schedules(ctx, 3, 3)          # take / emit interleavings of 3 workers over 3 records (same pool shape)
    out = ctx.path("minreplay_%s.ndjson" % mode)
    p = vlib.kvh(["replay", "minout", path, 3, ctx.rundir, ctx.seed, stride, mode], out=out)
    m = re.search(r"replayed=(\d+) unreplayable=(\d+)", p.stderr.decode(errors="replace"))
    rep, unrep = (int(m.group(1)), int(m.group(2))) if m else (0, 0)
    vlib.validate_trace(ctx, "MinOutTrace", out, "B3 replay %s: %d of %d schedules (%d unreplayable)" % (mode, rep, total, unrep), "reset")
    ctx.stages[-1].update({"schedules_total": total, "replayed": rep, "unreplayable": unrep})
    ctx.evaluations += rep
    ctx.nontrivial += rep
    if unrep > rep:
        ctx.deferred.append("most schedules could not be replayed")


def cli_runs(ctx):
    cli = vlib.build_cli()
    evs = []
    for j, (m, w, mode) in enumerate([(7, 0, "s2m"), (7, 8, "m2s"), (10, 25, "s2m"), (28, 0, "m2s"), (28, 40, "s2m"), (12, 13, "m2s")]):
        fa = ctx.path("mincli_%d.fa" % j)
        vlib.kvh(["gen", "fasta", ctx.seed * 17 + j, 8, 160, fa])
        # names need not be unique: the first two records once more, under their own names, at the end of the file
        with open(fa, "rb") as f:
            lines = f.read().split(b"\n")
        with open(fa, "ab") as f:
            f.write(b"\n".join(lines[:4]) + b"\n")
        out = ctx.path("mincli_%d.out" % j)
        if os.path.exists(out):
            os.remove(out)
        cmd = [cli, "min", "-i", fa, "-o", out, "-m", str(m), "-w", str(w), "-p", mode, "-t", str(1 + 3 * j)]
        p = vlib.sh(cmd, timeout=300)
        if p.returncode != 0 or not os.path.exists(out):
            ctx.violation("cli", {"cmd": cmd[1:], "exit": p.returncode}, {"stderr": p.stderr.decode(errors="replace")[-500:]})
            continue
        ev = ctx.path("mincli_%d.ndjson" % j)
        vlib.kvh(["decode", "minout", fa, out, mode, w, m], out=ev)
        evs.append(ev)
    return fc.cat_eof(evs, ctx.path("mincli.ndjson"))


def run(ctx):
    ctx.rule = ("model: every interleaving of take / write-line / push-run of up to 3 workers over record lists with 0..2 runs on two colliding "
                "minimiser values, both modes: one line per record, m2s = exact inversion of s2m (multisets), termination; "
                "B3: take/emit schedules replayed into seq_to_min and bin_sequences through the controlled scheduler; B2: free-running "
                "threads 1..16, m in {1,2,3,5,7,10,15,28}, w = 0 or > m, records shorter than m, around w, longer; the output files are "
                "decoded and every line compared with the runs the specification computes for that record (MinOps) / with the model's "
                "table; CLI runs for m 7..28 decoded the same way. non-trivial = runs executed")
    ctx.trusted += ["controlled scheduler", "s2m / m2s line decoding (minrun.rs)", "record ids are r<ordinal>", "TLC, Json/IOUtils community modules"]
    r = vlib.tlc("MCMinOut", rundir=ctx.rundir, coverage=True, timeout=3000)
    ctx.add_mc("mc MinOut: all interleavings, workers<=3, records<=3, both modes, liveness", r)
    if r.violated:
        ctx.violation("mc_minout", {"invariant": r.violated}, {"cex": r.cex[-1] if r.cex else None})
        return
    stride = 4 if ctx.thorough() else 24
    replay(ctx, "s2m", stride)
    replay(ctx, "m2s", stride)
    out = ctx.path("minfree.ndjson")
    runs = 160 if ctx.thorough() else 40
    vlib.kvh(["trace", "minout", ctx.seed, runs, ctx.rundir, 30 if ctx.thorough() else 12], out=out)
    vlib.validate_trace(ctx, "MinOutTrace", out, "free-running: threads 1..16, 8 minimiser sizes, w=0 / w>m", "reset")
    with open(out) as f:
        e = json.loads(f.readline())
        e["recs"] = e["recs"][:2]
        ctx.sample({"stage": "free", "event": e})
    ctx.evaluations += runs
    ctx.nontrivial += runs
    mm.tinv(ctx, "min", 20000 if ctx.thorough() else 6000)
    c = cli_runs(ctx)
    vlib.validate_trace(ctx, "MinOutTrace", c, "CLI min -p s2m|m2s, m 7..28", "reset")
    # w = 0 (one window spanning the record) on a record of more than 2^20 bases: the line is judged as one iterator run with
    # w = record length (LongTrace)
    wb = ctx.path("w0big.ndjson")
    vlib.kvh(["trace", "minw0big", ctx.seed, ctx.rundir], out=wb)
    vlib.validate_trace(ctx, "LongTrace", wb, "min -w 0 on a record of 1.08 million bases: one window, one run", "minit", timeout=3000)
    # listings into a pipe that is drained slowly (the pipe is full while several workers want to write; lines longer than the
    # pipe buffer): the same set of lines as into a file
    import hashlib, subprocess, time
    cli = vlib.build_cli()
    pin = ctx.path("pipe.fa")
    vlib.kvh(["gen", "fasta", ctx.seed + 3, 60, 30000, pin, "clean"])
    evs = []
    for mode in ("s2m", "m2s"):
        ref = ctx.path("pipe_ref.txt")
        vlib.sh([cli, "min", "-i", pin, "-o", ref, "-m", "7", "-w", "9", "-p", mode, "-t", "1"], timeout=600)
        norm = (lambda d: b"\n".join(sorted(d.split(b"\n")))) if mode == "s2m" else (lambda d: b"\n".join(sorted(
            ln.split(b"\t", 1)[0] + b"\t" + b",".join(sorted(re.findall(rb"\([^)]*\)", ln))) for ln in d.split(b"\n"))))
        a = hashlib.sha256(norm(open(ref, "rb").read())).hexdigest()[:16]
        for rep in range(3 if ctx.thorough() else 2):
            ff = ctx.path("out_fifo")
            if os.path.exists(ff):
                os.remove(ff)
            os.mkfifo(ff)
            pr = subprocess.Popen([cli, "min", "-i", pin, "-o", ff, "-m", "7", "-w", "9", "-p", mode, "-t", "8"], stdout=subprocess.DEVNULL, stderr=subprocess.DEVNULL)
            chunks = []
            with open(ff, "rb") as f:
                while True:
                    b = f.read(4096)
                    if not b:
                        break
                    chunks.append(b)
                    if len(chunks) % 64 == 0:
                        time.sleep(0.002)
            rc = pr.wait(timeout=600)
            os.remove(ff)
            b = hashlib.sha256(norm(b"".join(chunks))).hexdigest()[:16] if rc == 0 else "exit %d" % rc
            evs.append({"ev": "eq", "what": "min -p %s into a slowly drained pipe, 8 threads (run %d) = into a file" % (mode, rep), "a": a, "b": b})
        os.remove(ref)
    pe = ctx.path("pipe.ndjson")
    with open(pe, "w") as f:
        for e in evs:
            f.write(json.dumps(e) + "\n")
        f.write('{"ev":"eof"}\n')
    vlib.validate_trace(ctx, "FactsTrace", pe, "listings into a slowly drained pipe = into a file", "eq")
    many = ctx.path("many.ndjson")
    vlib.kvh(["trace", "many", ctx.seed, ctx.rundir, 70000, "min"], out=many)
    vlib.validate_trace(ctx, "FactsTrace", many, "70 000 records from a pool of 12: every s2m line / every m2s region judged (ordinals beyond 2^16, 10 000-record branches)", "manymin")
    ctx.exhaustive = False

"""C06 - reader returns every record once, in order, exact bases, for all containers."""
import json, os, re
import vlib


def run(ctx):
    ctx.rule = ("model: Reader (serialisation into lines, bio's line-level FASTA/FASTQ contract, numbering, statistics, gzip members) explored "
                "over every list of <= N records (2 ids, with/without description, 5 sequence lengths incl. empty) x FASTA wrap {inf,1,2,3} / "
                "FASTQ wrap {inf,2} x member split after line 0..3: RoundTrip, Stats, PrefixInv, NoError, termination; B4: TLC prints every "
                "scenario, the harness materialises real bytes (LF/CRLF, final newline or not, plain / gzip with 1-2 members stored or "
                "compressed, all suffix spellings) and reads them through Sequences + seq_stats; the trace (each yielded record, EOF, stats, "
                "inferred format) is validated against the same parser model in lock-step; random larger lists (to thousands of bases, wrap "
                "1..200, 2-5 members split at arbitrary byte offsets). non-trivial = scenarios with at least one record")
    ctx.trusted += ["fixture serialisation (harness/src/containers.rs: standard FASTA/FASTQ/gzip)", "bio's line-level contract is assumed by the model and confirmed by the replay",
                    "TLC, Json/IOUtils community modules"]
    for N in ((2, 3) if ctx.thorough() else (2,)):
        r = vlib.tlc("MCReader", env={"VN": N}, rundir=ctx.rundir, coverage=True, timeout=3400)
        ctx.add_mc("mc Reader: all scenarios with <= %d records%s" % (N, " (reduced record set)" if N > 2 else ""), r)
        if r.violated:
            st = vlib.parse_state(r.cex[-1]) if r.cex else {}
            ctx.violation("mc_reader", {"scenario": st.get("sc"), "invariant": r.violated}, {"state": st})
            return
    r = vlib.tlc("MCReader", cfg="ScenReader", env={"VN": 2}, workers=1, rundir=ctx.rundir, timeout=3000)
    ctx.add_mc("scenario export (<= 2 records)", r)
    path = ctx.path("scen.txt")
    k = 0
    with open(path, "w") as f:
        for line in r.printed:
            m = re.match(r'^<<"SCEN", "(.*)">>$', line)
            if m:
                f.write(m.group(1).replace('\\"', '"') + "\n")
                k += 1
    stride = 1 if ctx.thorough() else 8
    out = ctx.path("reader_replay.ndjson")
    vlib.kvh(["replay", "reader", path, ctx.rundir, ctx.seed, stride], out=out)
    vlib.validate_trace(ctx, "ReaderTrace", out, "B4 replay of %d of %d TLC scenarios as real files" % ((k + stride - 1) // stride, k), "ropen")
    ctx.evaluations += (k + stride - 1) // stride
    ctx.nontrivial += (k + stride - 1) // stride
    with open(out) as f:
        for j, line in enumerate(f):
            if j in (300, 301, 302, 303):
                ctx.sample({"stage": "replay", "event": json.loads(line)})
    fr = ctx.path("reader_free.ndjson")
    runs = 300 if ctx.thorough() else 60
    vlib.kvh(["trace", "reader", ctx.seed, runs, ctx.rundir, 4000 if ctx.thorough() else 1500], out=fr)
    vlib.validate_trace(ctx, "ReaderTrace", fr, "random larger lists, arbitrary member splits", "ropen")
    ctx.evaluations += runs
    ctx.nontrivial += runs
    ctx.exhaustive = False

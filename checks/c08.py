"""C08 - coverage histogram rows bin each window by its global k-mer multiplicity."""
import json, os
import vlib


def run(ctx):
    ctx.rule = ("model: Batch (ordered batch loop incl. zero-length records, OrderInv/DoneInv/termination) and Counter (exact global counts); "
                "B2: CovComputer runs through the library (bin size/count from 1, k in {1,2,3,7,15,31}, separate counting input or same "
                "file, normalised/raw, per-record flushing (0.5 GB -> threshold 0) and single flush, 1..16 threads, zero-length and all-N "
                "records): the reading/flush loop validated against Batch, every output row recomputed by the specification from ITS OWN "
                "count of the counting input (min(count div bin_size, bin_count-1), absent = 0, 6-decimal normalisation); one row per record. "
                "non-trivial = runs executed")
    ctx.trusted += ["row text -> integer decoding (sparse_row)", "flush threshold (mem as u64) << 30 computed by the harness for the reset event",
                    "TLC, Json/IOUtils community modules"]
    r = vlib.tlc("MCBatch", rundir=ctx.rundir, coverage=True, timeout=1200)
    ctx.add_mc("mc Batch: all length sequences (<=4 records, incl. zero-length) x thresholds, liveness", r)
    if r.violated:
        ctx.violation("mc_batch", {"invariant": r.violated}, {"cex": r.cex[-1] if r.cex else None})
        return
    runs = 120 if ctx.thorough() else 30
    maxrecs = 25 if ctx.thorough() else 10
    b = ctx.path("cov_batch.ndjson")
    vlib.kvh(["trace", "coverage", ctx.seed, runs, ctx.rundir, maxrecs, "batch"], out=b)
    vlib.validate_trace(ctx, "BatchTrace", b, "reading/flush loop of compute_coverages", "reset")
    rws = ctx.path("cov_rows.ndjson")
    vlib.kvh(["trace", "coverage", ctx.seed, runs, ctx.rundir, maxrecs, "rows"], out=rws)
    vlib.validate_trace(ctx, "CoverageTrace", rws, "rows of kmers.vectors recomputed by the specification", "creset")
    # multiplicities beyond 2^16 / 2^17, a 276 000-base record, 100 000 bins: records given by run lengths (RunLength; its lemma
    # RleAgrees is model-checked by C04)
    bg = ctx.path("covbig.ndjson")
    vlib.kvh(["trace", "covbig", ctx.seed, ctx.rundir], out=bg)
    vlib.validate_trace(ctx, "FactsTrace", bg, "rows of records given by run lengths (multiplicity 210 000, 100 000 bins), k=4,12,31,7", "covbig")
    with open(rws) as f:
        e = json.loads(f.readline())
        e["recs"] = e["recs"][:2]
        e["crecs"] = e["crecs"][:2]
        ctx.sample({"stage": "rows", "event": e})
        ctx.sample({"stage": "rows", "event": json.loads(f.readline())})
    # CLI (its ranges: k 7..31, bins >= 5): rows decoded and judged the same way
    cli = vlib.build_cli()
    evs = ctx.path("cov_cli.ndjson")
    with open(evs, "w") as out:
        for j, (k, bs, bc, counts) in enumerate([(7, 5, 5, False), (15, 16, 16, True), (31, 5, 7, False)]):
            fa = ctx.path("covcli_%d.fa" % j)
            vlib.kvh(["gen", "fasta", ctx.seed * 31 + j, 8, 200, fa])
            od = ctx.path("covcli_out_%d" % j)
            cmd = [cli, "cov", "-i", fa, "-o", od, "-k", str(k), "-s", str(bs), "-c", str(bc), "-t", str(2 + j), "-p", "csv"]
            if counts:
                cmd.append("--counts")
            p = vlib.sh(cmd, timeout=300)
            recs = []
            for chunk in open(fa, "rb").read().split(b">")[1:]:
                recs.append(list(chunk.split(b"\n", 1)[1].replace(b"\n", b"")))
            out.write(json.dumps({"ev": "creset", "k": k, "bs": bs, "bc": bc, "norm": 0 if counts else 1, "crecs": recs, "recs": recs, "src": "cli"}) + "\n")
            vec = os.path.join(od, "kmers.vectors")
            lines = open(vec).read().split("\n")[:-1] if os.path.exists(vec) and p.returncode == 0 else []
            for i, l in enumerate(lines):
                row = []
                toks = l.split(",")
                for b_, t in enumerate(toks):
                    if counts:
                        v = int(t) if t.isdigit() else -1
                    else:
                        a, _, frac = t.partition(".")
                        v = int(a) * 1000000 + int(frac) if a.isdigit() and frac.isdigit() and len(frac) == 6 else -1
                    if v != 0:
                        row += [b_, v]
                out.write(json.dumps({"ev": "crow", "i": i, "ncols": len(toks), "row": row}) + "\n")
            out.write(json.dumps({"ev": "crows", "rows": len(lines), "records": len(recs), "exit": p.returncode}) + "\n")
        out.write(json.dumps({"ev": "eof"}) + "\n")
    vlib.validate_trace(ctx, "CoverageTrace", evs, "CLI cov (k 7/15/31, csv, counts/default)", "creset")
    ctx.evaluations += runs + 3
    ctx.nontrivial += runs + 3
    ctx.exhaustive = False

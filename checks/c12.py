"""C12 - k-mer CGR pairs each canonical k-mer's CGR position with its oligo frequency."""
import json, os
import vlib
import factcommon as fc


def mc(ctx, k, L):
    env = {"VK": k, "VL": L}
    files = []
    for mode, var in (("raw", "VRAW"), ("norm", "VNORM")):
        t = ctx.path("ocgr_%s_k%d.ndjson" % (mode, k))
        vlib.kvh(["table", "ocgr", k, L, ctx.seed, mode, ctx.rundir], out=t)
        env[var] = t
        files.append(t)
    env["VNORB"] = env["VNORM"]
    r = vlib.tlc("MCOligoVec", env=env, rundir=ctx.rundir, coverage=True, timeout=3400)
    ctx.add_mc("mc+file-API tables (k-mer CGR frequencies) k=%d L<=%d" % (k, L), r)
    n, ne = vlib.table_nonempty(files[0])
    ctx.evaluations += n
    ctx.nontrivial += ne
    if r.violated:
        st = vlib.parse_state(r.cex[-1]) if r.cex else {}
        inp = st.get("inp")
        ctx.violation("mc_table", {"k": k, "input": "".join("ACGTN"[c] for c in inp) if isinstance(inp, list) else None,
                                   "invariant": r.violated}, {"model_vec": st.get("vec"), "total": st.get("total")})
        return False
    for f in files:
        os.remove(f)
    return True


def cli_runs(ctx, n, maxlen):
    cli = vlib.build_cli()
    evs = []
    for j, k in enumerate((3, 4, 5, 6, 7)):
        fa = ctx.path("cli_ocgr_%d.fa" % k)
        vlib.kvh(["gen", "fasta", ctx.seed * 100 + k, n, maxlen, fa, "ratio%d" % k])
        for counts in (False, True):
            size = None if (j + counts) % 2 == 0 else [1, 16, 1 << 20][j % 3]
            out = ctx.path("cli_ocgr_%d_%d.out" % (k, counts))
            cmd = [cli, "comp", "cgr", "-i", fa, "-o", out, "-k", str(k), "-t", str(1 + 3 * j)]
            if counts:
                cmd.append("-c")
            if size:
                cmd += ["-v", str(size)]
            p = vlib.sh(cmd, timeout=300)
            if p.returncode != 0 or not os.path.exists(out):
                ctx.violation("cli", {"cmd": cmd[1:], "exit": p.returncode}, {"stderr": p.stderr.decode(errors="replace")[-500:]})
                continue
            ev = ctx.path("cli_ocgr_%d_%d.ndjson" % (k, counts))
            vlib.kvh(["decode", "ocgr", fa, out, k, size or k * k, 0 if counts else 1, "cli"], out=ev)
            evs.append(ev)
    return fc.cat_eof(evs, ctx.path("cli_ocgr.ndjson"))


def run(ctx):
    ctx.rule = ("B1: every string over {A,C,G,T/U,other} up to L as one record through OligoCgrComputer::vectorise() (raw and "
                "normalised, small batch limit): frequencies compared by TLC with the OligoVec model, coordinates required to be "
                "bit-identical in every row; B2: random records k=1..8, sizes {1,k^2,16,2^20}, threads 1..16: every column's (x,y) "
                "numerator = chaos-game end point of that column's k-mer text (ocols), every row's frequencies = declarative "
                "Count (orec); CLI incl. default -v = k^2. non-trivial = records with at least one valid window")
    ctx.trusted += ["triple text -> numerators / 6-decimal digits decoding (facts.rs)", "TLC, Json/IOUtils community modules"]
    for k, L in ([(1, 7), (2, 7), (3, 7)] if ctx.thorough() else [(1, 6), (2, 6), (3, 5)]):
        if not mc(ctx, k, L):
            return
    t = ctx.path("ocgr_lib.ndjson")
    vlib.kvh(["trace", "ocgr", ctx.seed, 24 if ctx.thorough() else 6, 500 if ctx.thorough() else 250, ctx.rundir], out=t)
    fc.validate(ctx, t, "library file API k=1..8", "orec")
    fc.sample_events(ctx, t, 2, "ocgr lib")
    c = cli_runs(ctx, 12 if ctx.thorough() else 4, 300)
    fc.validate(ctx, c, "CLI comp cgr -k", "orec")
    # a 17-million-base record (one k-mer more than 2^24 times, totals beyond 2^24) through the k-mer CGR writer as well
    b = ctx.path("big_rows.ndjson")
    vlib.kvh(["trace", "oligobig", ctx.seed, 1, ctx.rundir], out=b)
    fc.validate(ctx, b, "frequencies of records given by run lengths (17 million bases) through the k-mer CGR writer, k=2,4", "obig")
    ctx.exhaustive = False

"""Shared helpers for the per-record fact checks (C04, C11, C12, C13)."""
import json, os, sys
import vlib


def validate(ctx, trace, stage, run_ev):
    """FactsTrace validation with the judged event reported on failure."""
    ok = vlib.validate_trace(ctx, "FactsTrace", trace, stage, run_ev)
    return ok


def sample_events(ctx, trace, n=2, stage="facts"):
    with open(trace) as f:
        for j, line in enumerate(f):
            if j >= n:
                break
            e = json.loads(line)
            for key in ("bytes", "row", "pts", "tops", "cols"):
                if key in e and isinstance(e[key], list) and len(e[key]) > 24:
                    e[key] = e[key][:24] + ["...(%d)" % len(e[key])]
            ctx.sample({"stage": stage, "event": e})


def cat_eof(files, out):
    """concatenate event files, keeping a single final eof"""
    with open(out, "w") as o:
        for f in files:
            for line in open(f):
                if '"ev":"eof"' in line:
                    continue
                o.write(line)
        o.write('{"ev":"eof"}\n')
    return out


def pydriver(ctx, args, out, timeout=900):
    pyd = vlib.build_py()
    with open(out, "wb") as f:
        p = vlib.sh([sys.executable, os.path.join(vlib.ROOT, "py", "driver.py"), pyd] + [str(a) for a in args], stdout=f, timeout=timeout)
    if p.timeout:
        raise vlib.ToolError("python driver timeout")
    # a crash of the interpreter is data, not a tool error: the driver's last line tells
    return p

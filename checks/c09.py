"""C09 - minimiser iterator emits exactly the maximal runs of same-minimiser windows."""
import minicommon as mc

QUICK = [(1, 1), (2, 1), (2, 2), (3, 2), (4, 2), (3, 3), (5, 3)]


def run(ctx):
    ctx.rule = ("B1: every string over {A,C,G,T/U,other} up to L for each (w,m) listed in stages: PrefixInv (emitted runs + open run "
                "= declarative runs of the prefix, in every state), ring-buffer invariant, and equality with the real "
                "MinimiserGenerator / KmerMinimiserGenerator output; alphabet {A,C,other} to greater depth (ties); "
                "B2: random (w,m) with m<=31, w<=m+60, every next() validated incl. internal state. "
                "non-trivial = input for which the real iterator emits at least one run")
    ctx.trusted += ["harness enumeration order = TLC's index", "TLC, Json/IOUtils community modules"]
    L = 8 if ctx.thorough() else 7     # (L = 9 with two 50 MB tables per run exhausts TLC's heap when the machine is shared)
    for (w, m) in QUICK:
        if not mc.mc_table(ctx, w, m, L):
            return
    if ctx.thorough():
        for (w, m) in [(4, 1), (6, 2), (8, 3), (5, 5)]:
            if not mc.mc_table(ctx, w, m, 12, alpha="014"):
                return
        mc.mc_table(ctx, 4, 2, 9, tables=False)
        mc.mc_table(ctx, 3, 3, 9, tables=False)
    else:
        for (w, m) in [(6, 2), (8, 3)]:
            if not mc.mc_table(ctx, w, m, 10, alpha="014"):
                return
    if ctx.thorough():
        mc.traces(ctx, "minimiser", 16, 150, 600)
    else:
        mc.traces(ctx, "minimiser", 8, 40, 300)
    ctx.exhaustive = False

"""C02 - reverse complement and ACGT decoding are exact inverses; strands symmetric."""
import json, os
import vlib


def run(ctx):
    ctx.rule = ("B1: the 4-ary tree of all digit strings up to length K (every code x<4^k for every k<=K): loop-shaped "
                "rev_comp/numeric_to_kmer = declarative RC/Decode, involution, text RC, Encode(Decode)=id, and equality with "
                "the real rev_comp / numeric_to_kmer for every code; strand symmetry of the iterator: MCKmerIter (PairRC, "
                "StrandSym, CanonBagSym on the model; ImplStrandSym and Conforms on the real iterator's table) for all class "
                "strings up to L; B2: sampled codes for k<=31 (0, 4^k-1, RC-palindromes, single-digit perturbations, random) "
                "as 32-digit words. non-trivial = every code/input counted once")
    ctx.trusted += ["harness table layout", "digits32 conversion", "TLC, Json/IOUtils community modules"]
    K = 10 if ctx.thorough() else 8
    t = ctx.path("revcomp.ndjson")
    vlib.kvh(["table", "revcomp", K], out=t)
    r = vlib.tlc("MCNt", env={"VK": K, "VIMPL": t}, rundir=ctx.rundir, coverage=True, timeout=3000)
    ctx.add_mc("mc+table all codes k<=%d" % K, r)
    ctx.evaluations += r.distinct
    ctx.nontrivial += r.distinct - 1
    if r.violated:
        st = vlib.parse_state(r.cex[-1]) if r.cex else {}
        ctx.violation("mc_codes", {"digits": st.get("d"), "invariant": r.violated}, {"state": st})
        return
    with open(t) as f:
        rows = [json.loads(f.readline()) for _ in range(3)]
    ctx.sample({"stage": "mc_codes", "k": 3, "x": 27, "impl [rc, letters...]": rows[2][27]})
    os.remove(t)
    # iterator pairs and strand symmetry
    L = 8 if ctx.thorough() else 6
    for k in (1, 2, 3):
        table = ctx.path("kmer_k%d.ndjson" % k)
        vlib.kvh(["table", "kmer", k, L, ctx.seed], out=table)
        r = vlib.tlc("MCKmerIter", env={"VK": k, "VL": L, "VIMPL": table}, rundir=ctx.rundir, timeout=3000)
        ctx.add_mc("iterator strand symmetry k=%d L<=%d" % (k, L), r)
        ctx.evaluations += r.distinct
        ctx.nontrivial += r.distinct
        if r.violated:
            st = vlib.parse_state(r.cex[-1]) if r.cex else {}
            ctx.violation("mc_iter", {"k": k, "input_classes": st.get("inp"), "invariant": r.violated}, {"state": st})
            return
        os.remove(table)
    # sampled codes up to k = 31
    tr = ctx.path("rc_samples.ndjson")
    vlib.kvh(["trace", "rc", ctx.seed, 400 if ctx.thorough() else 40], out=tr)
    vlib.validate_trace(ctx, "FactsTrace", tr, "sampled codes k<=31", "rc")
    with open(tr) as f:
        ctx.sample({"stage": "samples", "event": json.loads(f.readline())})
    ctx.exhaustive = False

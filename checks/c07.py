"""C07 - k-mer counting is exact and independent of threads, chunking and partitioning."""
import json, os, re
import vlib
import mmcommon as mm


def schedules(ctx, w, lim, simulate=None):
    """complete worker schedules of SchedCfg: all of them (exhaustive) or `simulate` random behaviours (TLC -simulate)"""
    r = vlib.tlc("SchedCounter", cfg="SchedCounter", env={"VW": w, "VLIM": lim}, workers=1, rundir=ctx.rundir, timeout=3000,
                 simulate=simulate, depth=400 if simulate else None, extra=["-seed", str(ctx.seed)] if simulate else None)
    ctx.add_mc("schedule export workers=%d limit=%d (%s)" % (w, lim, "simulation" if simulate else "exhaustive"), r)
    if r.violated:
        raise vlib.ToolError("schedule export violated " + r.violated)
    path = ctx.path("csched_w%d_l%d.txt" % (w, lim))
    k = 0
    with open(path, "w") as f:
        for line in r.printed:
            m = re.match(r'^<<"SCHED", "(.*)">>$', line)
            if m:
                f.write(m.group(1).replace('\\"', '"') + "\n")
                k += 1
    return path, k


def replay(ctx, w, lim, want, simulate=False):
    path, total = schedules(ctx, w, lim, simulate=want if simulate else None)
    stride = max(1, total // want)
    out = ctx.path("creplay_w%d_l%d.ndjson" % (w, lim))
    p = vlib.kvh(["replay", "counter", path, w, lim, ctx.rundir, ctx.seed, stride], out=out)
    m = re.search(r"replayed=(\d+) unreplayable=(\d+)", p.stderr.decode(errors="replace"))
    rep, unrep = (int(m.group(1)), int(m.group(2))) if m else (0, 0)
    ok = vlib.validate_trace(ctx, "CounterTrace", out, "B3 replay workers=%d limit=%d: %d of %d schedules (%d unreplayable)" % (w, lim, rep, total, unrep), "reset")
    ctx.stages[-1].update({"schedules_total": total, "replayed": rep, "unreplayable": unrep})
    with open(path) as f:
        distinct = len(set(f.read().splitlines()))
    ctx.evaluations += rep
    ctx.nontrivial += min(rep, distinct)          # simulation may repeat a schedule: count distinct ones
    ctx.stages[-1]["distinct_schedules"] = distinct
    if unrep > rep:
        ctx.deferred.append("most schedules could not be replayed (%d of %d)" % (unrep, rep + unrep))
    with open(path) as f:
        ctx.sample({"stage": "schedule", "workers": w, "limit": lim, "schedule": json.loads(f.readline())})
    os.remove(path)
    return ok


def run(ctx):
    ctx.rule = ("model: every interleaving of check/take/count/add/exit of up to W workers and of the merge tasks over record lists whose "
                "k-mers collide, limits giving 1..4 chunks, 1..3 partitions, deleting and non-deleting merge: Exact, SumIsWindows, "
                "NoTempLeft, PartitionInv, Conservation (nothing lost at the limit), termination under weak fairness; "
                "B3: TLC-exported worker schedules replayed into the real CountComputer through the controlled scheduler "
                "(points: limit check, take, after take, add total), the recorded run validated against Counter incl. every chunk file's "
                "key count, merge reads, deletions, final listing and decoded kmers.counts; B2: free-running runs, threads 1..16, "
                "k in {1,2,5,15,16,31}, repetitive inputs, limits giving 1..dozens of chunks, ACGT rendering; contention stress without "
                "hooks (thorough). non-trivial = schedules / runs executed")
    ctx.trusted += ["controlled scheduler (harness/src/sched.rs)", "kmers.counts line decoding (ctrrun.rs)",
                    "atomicity of scc's entry().and_modify().or_insert() has no hook between its halves: covered only by free-running contention stress",
                    "TLC, Json/IOUtils community modules"]
    W = 3 if ctx.thorough() else 2
    r = vlib.tlc("MCCounter", env={"VW": W, "VLIM": 2}, rundir=ctx.rundir, coverage=True, timeout=3400)
    ctx.add_mc("mc Counter: all interleavings, workers<=%d, 4 record lists x 3 limits x 3 partition counts x delete" % W, r)
    if r.violated:
        st = vlib.parse_state(r.cex[-1]) if r.cex else {}
        ctx.violation("mc_counter", {"cfg": st.get("ccfg"), "invariant": r.violated}, {"state": st})
        return
    want = 1500 if ctx.thorough() else 150
    for lim in (0, 4, 100):
        replay(ctx, 2, lim, want, simulate=not ctx.thorough())
    if ctx.thorough():
        replay(ctx, 3, 4, 1500, simulate=True)
        replay(ctx, 3, 0, 1500, simulate=True)
    out = ctx.path("cfree.ndjson")
    runs = 60 if ctx.thorough() else 14
    vlib.kvh(["trace", "counter", ctx.seed, runs, ctx.rundir, 30 if ctx.thorough() else 12], out=out)
    vlib.validate_trace(ctx, "CounterTrace", out, "free-running: threads 1..16, k in {1,2,5,15,16,31}, limits {0,1,50,200,1e6}", "reset")
    ctx.evaluations += runs
    ctx.nontrivial += runs
    st = ctx.path("cstress.ndjson")
    sruns = 20 if ctx.thorough() else 4
    vlib.kvh(["trace", "ctrstress", ctx.seed, sruns, ctx.rundir, 2000], out=st)
    vlib.validate_trace(ctx, "FactsTrace", st, "contention stress: 2000 identical records x 16 threads (no hooks)", "ctrstress")
    bg = ctx.path("ctrbig.ndjson")
    vlib.kvh(["trace", "ctrbig", ctx.seed, ctx.rundir], out=bg)
    vlib.validate_trace(ctx, "FactsTrace", bg, "records given by run lengths (276 000 bases in one record, a k-mer 210 000 times), k=5,16,31,11, one chunk and several", "ctrbig")
    ctx.evaluations += sruns
    ctx.nontrivial += sruns
    mm.tinv(ctx, "ctr", 20000 if ctx.thorough() else 6000)
    # the command itself, on one CPU: whatever cleans up must have happened when the process exits (a clean-up handed to a
    # detached task or thread gets no turn before exit when there is a single CPU) - no temp file left, counts as on many CPUs
    import hashlib, shutil
    cli = vlib.build_cli()
    cin = ctx.path("pin.fa")
    vlib.kvh(["gen", "fasta", ctx.seed + 5, 12, 200, cin])
    evs = []
    ref = None
    for j in range(60 if ctx.thorough() else 24):
        od = ctx.path("pin_out")
        shutil.rmtree(od, ignore_errors=True)
        pinned = j > 0
        cmd = (["taskset", "-c", "0"] if pinned else []) + [cli, "ctr", "-i", cin, "-o", od, "-k", "10", "-t", str([2, 4, 8][j % 3])]
        p = vlib.sh(cmd, timeout=300)
        left = sorted(f for f in os.listdir(od) if f.startswith("temp_")) if os.path.isdir(od) else ["no output directory"]
        cf = os.path.join(od, "kmers.counts")
        dig = hashlib.sha256(b"\n".join(sorted(open(cf, "rb").read().split(b"\n")))).hexdigest()[:16] if os.path.exists(cf) else "missing"
        got = "exit %s, %d temp files left, counts %s" % (p.returncode, len(left), dig)
        if ref is None:
            ref = got
        else:
            evs.append({"ev": "eq", "what": "ctr on one CPU (taskset -c 0), run %d: exit status, left-over temp files, counts" % j, "a": ref, "b": got})
        shutil.rmtree(od, ignore_errors=True)
    pe = ctx.path("pinned.ndjson")
    with open(pe, "w") as f:
        for e in evs:
            f.write(json.dumps(e) + "\n")
        f.write('{"ev":"eof"}\n')
    vlib.validate_trace(ctx, "FactsTrace", pe, "the ctr command pinned to one CPU: nothing temporary left at exit, same counts", "eq")
    many = ctx.path("many.ndjson")
    vlib.kvh(["trace", "many", ctx.seed, ctx.rundir, 70000, "ctr"], out=many)
    vlib.validate_trace(ctx, "FactsTrace", many, "70 000 records from a pool of 12, several chunks: every count judged", "manyctr")
    ctx.exhaustive = False

"""C05 - oligo rows follow input order for any threads, batching, writer path, container."""
import json, os
import vlib
import mmcommon as mm


def run(ctx):
    ctx.rule = ("model: every interleaving of Take/WriteRow for up to 3 workers x 4 records (RowOrder, EachOnce, Tiling) and the batch loop "
                "for all length sequences/thresholds (OrderInv, DoneInv, termination); B3: TLC-exported complete schedules replayed "
                "into the real vectorise_mmap through the controlled scheduler, the recorded run validated against OligoMmap and every "
                "output row decoded to its record ordinal; B2: free-running mmap runs (1..16 threads, perturbed), batch-path runs with "
                "memory limits {1,7,64,4GiB}; same records through FASTA / wrapped / CRLF / FASTQ / gzip (1-3 members) x both writers: "
                "identical bytes; header adds exactly one line. non-trivial = schedules / runs / configurations executed")
    ctx.trusted += ["controlled scheduler (harness/src/sched.rs)", "row -> ordinal decoding of coded records", "FNV digest of output bytes",
                    "rayon's indexed collect keeps order (assumed by Batch)", "TLC, Json/IOUtils community modules"]
    if not mm.mc(ctx, 4, 3):
        return
    r = vlib.tlc("MCBatch", rundir=ctx.rundir, coverage=True, timeout=1200)
    ctx.add_mc("mc Batch: all length sequences (<=4 records) x thresholds, liveness", r)
    if r.violated:
        ctx.violation("mc_batch", {"invariant": r.violated}, {"cex": r.cex[-1] if r.cex else None})
        return
    if ctx.thorough():
        mm.replay(ctx, 3, 3, 1)
        mm.replay(ctx, 4, 2, 1)
        mm.replay(ctx, 2, 3, 1)
        mm.replay(ctx, 4, 3, 40)
    else:
        mm.replay(ctx, 3, 3, 8)
        mm.replay(ctx, 4, 2, 2)
    mm.free(ctx, 60 if ctx.thorough() else 16, 500 if ctx.thorough() else 120)
    out = ctx.path("batch.ndjson")
    runs = 80 if ctx.thorough() else 20
    vlib.kvh(["trace", "oligobatch", ctx.seed, runs, ctx.rundir, 200 if ctx.thorough() else 60], out=out)
    vlib.validate_trace(ctx, "BatchTrace", out, "free-running batch writer: memory limits, threads, header", "reset")
    ctx.evaluations += runs
    ctx.nontrivial += runs
    mm.tinv(ctx, "oligo", 20000 if ctx.thorough() else 6000)
    p = ctx.path("paths.ndjson")
    groups = 20 if ctx.thorough() else 5
    vlib.kvh(["trace", "oligopaths", ctx.seed, groups, ctx.rundir, 120 if ctx.thorough() else 40], out=p)
    vlib.validate_trace(ctx, "FactsTrace", p, "containers x writers x threads x limits: identical bytes", "same")
    with open(p) as f:
        ctx.sample({"stage": "paths", "event": json.loads(f.readline())})
    ctx.evaluations += groups * 16
    ctx.nontrivial += groups * 16
    many = ctx.path("many.ndjson")
    vlib.kvh(["trace", "many", ctx.seed, ctx.rundir, 70000, "oligo"], out=many)
    vlib.validate_trace(ctx, "FactsTrace", many, "70 000 records from a pool of 12: every row judged (ordinals beyond 2^16), mmap and batch writer", "manyo")
    al = ctx.path("aligned_rows.ndjson")
    vlib.kvh(["trace", "oligobig", ctx.seed, 0, ctx.rundir], out=al)
    vlib.validate_trace(ctx, "FactsTrace", al, "20 records of exactly 64 KiB each (every header on a 64 KiB boundary, one on 1 MiB): every row judged, both writers", "obig")
    ctx.exhaustive = False

"""C03 - canonical k-mer column index is a dense ordered bijection matching the header."""
import json, os, sys
import vlib

DELIM = {"csv": ",", "tsv": "\t", "spc": " "}


def cli_headers(ctx, out):
    cli = vlib.build_cli()
    fa = ctx.path("hdr.fa")
    open(fa, "w").write(">r1 d\nACGTNACGTTGCAAGT\n>r2\nTTTTTTTTTTTTT\n")
    n = 0
    with open(out, "w") as f:
        for k in range(3, 8):
            for preset, dl in DELIM.items():
                for path in ("mmap", "batch"):
                    o = ctx.path("hdr.out")
                    if os.path.exists(o):
                        os.remove(o)
                    cmd = [cli, "comp", "oligo", "-i", fa, "-o", o, "-k", str(k), "-p", preset, "-H", "-t", "2"]
                    if path == "batch":
                        cmd.append("-c")
                    p = vlib.sh(cmd, timeout=120)
                    line1 = b""
                    if p.returncode == 0 and os.path.exists(o):
                        line1 = open(o, "rb").read().split(b"\n")[0]
                    cols = [list(c) for c in line1.split(dl.encode())]
                    f.write(json.dumps({"ev": "header", "k": k, "src": "cli-%s-%s" % (path, preset), "exit": p.returncode,
                                        "cols": cols}) + "\n")
                    n += 1
        f.write(json.dumps({"ev": "eof"}) + "\n")
    return n


def run(ctx):
    ctx.rule = ("B1: scan of all 4^k codes for every k<=K with a rank counter, the real kmer_pos_maps(k) compared at every "
                "code (rank of canonical x, inverse map, count = closed form, every table entry inside the vector); "
                "headers: CLI `comp oligo -H` for k=3..7 x {csv,tsv,spc} x {mmap,batch path}, and the Python binding's "
                "get_header() for k=1..8, each column compared with the specification's canonical list. "
                "non-trivial = codes scanned + header lines checked")
    ctx.trusted += ["header line split on the preset's delimiter (python)", "TLC, Json/IOUtils community modules"]
    K = 10 if ctx.thorough() else 9
    t = ctx.path("posmap.ndjson")
    vlib.kvh(["table", "posmap", K], out=t)
    # the Python binding's header for every k <= K rides along (names tied to ranks by the same scan)
    pyd = vlib.build_py()
    ht = ctx.path("py_headertable.ndjson")
    with open(ht, "wb") as f:
        p = vlib.sh([sys.executable, os.path.join(vlib.ROOT, "py", "driver.py"), pyd, "headertable", str(K)], stdout=f, timeout=600)
    if p.returncode != 0:
        ctx.violation("python_header", {"exit": p.returncode}, {"stderr": p.stderr.decode(errors="replace")[-1500:]})
        return
    r = vlib.tlc("PosMap", cfg="PosMapAll", env={"VK": K, "VIMPL": t, "VHDR": ht}, rundir=ctx.rundir, coverage=True, workers=8, timeout=3000)
    ctx.add_mc("mc+table posmap k<=%d" % K, r)
    ctx.evaluations += r.distinct
    ctx.nontrivial += r.distinct
    if r.violated:
        st = vlib.parse_state(r.cex[-1]) if r.cex else {}
        ctx.violation("mc_posmap", {"k": st.get("K"), "x": st.get("x"), "invariant": r.violated}, {"state": st})
        return
    with open(t) as f:
        row = json.loads(f.readline())
    ctx.sample({"stage": "posmap", "k": 1, "impl": row})
    os.remove(t)
    # headers through the CLI
    h = ctx.path("headers_cli.ndjson")
    n = cli_headers(ctx, h)
    vlib.validate_trace(ctx, "FactsTrace", h, "CLI headers k=3..7 x presets x paths", "header")
    ctx.evaluations += n
    ctx.nontrivial += n
    # header through the Python binding
    pyd = vlib.build_py()
    hp = ctx.path("headers_py.ndjson")
    with open(hp, "wb") as f:
        p = vlib.sh([sys.executable, os.path.join(vlib.ROOT, "py", "driver.py"), pyd, "header", "1", "8"], stdout=f, timeout=300)
    if p.returncode != 0:
        raise vlib.ToolError("python driver failed: " + p.stderr.decode(errors="replace")[-2000:])
    vlib.validate_trace(ctx, "FactsTrace", hp, "python get_header k=1..8", "header")
    with open(h) as f:
        e = json.loads(f.readline())
        e["cols"] = e["cols"][:4] + ["..."]
        ctx.sample({"stage": "header", "event": e})
    ctx.exhaustive = True

"""Shared stages for the memory-mapped / batch oligo writers (C05, C14)."""
import json, os, re
import vlib


def mc(ctx, nmax, wmax):
    r = vlib.tlc("MCOligoMmap", env={"VN": nmax, "VW": wmax}, rundir=ctx.rundir, coverage=True, timeout=3000)
    ctx.add_mc("mc OligoMmap: all interleavings, n<=%d, workers<=%d, kc in {1,3}, dl 0..3, header on/off" % (nmax, wmax), r)
    if r.violated:
        st = vlib.parse_state(r.cex[-1]) if r.cex else {}
        ctx.violation("mc_mmap", {"cfg": st.get("cfg"), "invariant": r.violated}, {"state": st, "note": "model-level violation"})
        return False
    return True


def schedules(ctx, n, w):
    """TLC exports every complete schedule of (n records, w workers)"""
    r = vlib.tlc("MCOligoMmap", cfg="SchedOligoMmap", env={"VN": n, "VW": w}, workers=1, rundir=ctx.rundir, timeout=3000)
    ctx.add_mc("schedule export n=%d w=%d" % (n, w), r)
    if r.violated:
        raise vlib.ToolError("schedule export violated " + r.violated)
    path = ctx.path("sched_n%d_w%d.txt" % (n, w))
    k = 0
    with open(path, "w") as f:
        for line in r.printed:
            m = re.match(r'^<<"SCHED", "(.*)">>$', line)
            if m:
                f.write(m.group(1).replace('\\"', '"') + "\n")
                k += 1
    return path, k


def replay(ctx, n, w, stride):
    path, total = schedules(ctx, n, w)
    out = ctx.path("replay_n%d_w%d.ndjson" % (n, w))
    p = vlib.kvh(["replay", "oligommap", path, n, w, ctx.rundir, ctx.seed, stride], out=out)
    m = re.search(r"replayed=(\d+) unreplayable=(\d+)", p.stderr.decode(errors="replace"))
    rep, unrep = (int(m.group(1)), int(m.group(2))) if m else (0, 0)
    ok = vlib.validate_trace(ctx, "OligoMmapTrace", out, "B3 replay n=%d w=%d: %d of %d schedules (%d unreplayable)" % (n, w, rep, total, unrep), "reset")
    ctx.evaluations += rep
    ctx.nontrivial += rep
    ctx.stages[-1].update({"schedules_total": total, "replayed": rep, "unreplayable": unrep})
    if unrep > rep:
        # the code does not follow the specification's schedules at hook granularity: the free-running stages decide
        ctx.deferred.append("most schedules could not be replayed (%d of %d)" % (unrep, rep + unrep))
    with open(path) as f:
        ctx.sample({"stage": "schedule", "n": n, "w": w, "schedule": json.loads(f.readline())})
    return ok


def free(ctx, runs, maxn, tag=""):
    out = ctx.path("mmfree%s.ndjson" % tag)
    vlib.kvh(["trace", "oligommap", ctx.seed, runs, ctx.rundir, maxn], out=out)
    ok = vlib.validate_trace(ctx, "OligoMmapTrace", out, "free-running mmap writer: threads 1..16, delimiters 0..3 bytes, header on/off", "reset")
    ctx.evaluations += runs
    ctx.nontrivial += runs
    return ok


def tinv(ctx, prefix, nrec):
    """thread-count invariance on larger inputs (megabytes of output): 1 thread vs 2, 5, 16 threads; only the events whose
    label starts with `prefix` belong to the calling property"""
    raw = ctx.path("tinv_all.ndjson")
    vlib.kvh(["trace", "tinv", ctx.seed, ctx.rundir, nrec], out=raw)
    out = ctx.path("tinv.ndjson")
    n = 0
    with open(out, "w") as f:
        for line in open(raw):
            e = json.loads(line)
            if e["ev"] == "eq" and e["what"].startswith(prefix):
                f.write(line)
                n += 1
        f.write('{"ev":"eof"}\n')
    ok = vlib.validate_trace(ctx, "FactsTrace", out, "thread-count invariance on a large input (%d records): %s, 1 vs 2/5/16 threads" % (nrec, prefix), "eq")
    ctx.evaluations += n
    ctx.nontrivial += n
    return ok

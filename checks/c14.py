"""C14 - unchecked indexing and memory-mapped writes always stay inside their buffers."""
import json, os
import vlib
import mmcommon as mm


def run(ctx):
    ctx.rule = ("model: OligoMmap InBounds / Disjoint / Tiling for every interleaving, delimiter length 0..3, kc in {1,3}, header on/off, "
                "n<=4, workers<=3; OligoVec IndexInRange for all inputs (k=1..3); B2: every write_at of real runs logged as (pos,len,capacity) "
                "and checked against WriteRow: in bounds, disjoint from all earlier writes, file tiled exactly (size, no NUL byte), "
                "delimiters of 0..5 bytes, k=1..3, 1..16 threads; every unchecked index site (oligo, oligocgr, coverage bins, counting "
                "partitions) logs its largest index + 1 and buffer length per record. non-trivial = runs with at least one write")
    ctx.trusted += ["hook in MMWriter::write_at logs before the copy", "index maxima are computed inside the hooked loops (feature-gated code)",
                    "TLC, Json/IOUtils community modules"]
    ctx.assumptions += ["memory safety proper (UB) is not a trace property; decided as stated: logged indices and write ranges vs buffer sizes. "
                        "The harness is additionally built with debug-assertions, so std's unsafe-precondition checks abort on an out-of-range get_unchecked"]
    if not mm.mc(ctx, 4, 3):
        return
    # index range at model level (k = 1..3, all inputs)
    for k in (1, 2, 3):
        env = {"VK": k, "VL": 5 if not ctx.thorough() else 6, "VRAW": "/dev/null", "VNORM": "/dev/null", "VNORB": "/dev/null"}
        r = vlib.tlc("MCOligoVec", cfg="MCOligoVecModel", env=env, rundir=ctx.rundir, timeout=2000)
        ctx.add_mc("mc OligoVec IndexInRange k=%d" % k, r)
        if r.violated:
            ctx.violation("mc_index", {"k": k, "invariant": r.violated}, {"cex": r.cex[-1] if r.cex else None})
            return
    mm.free(ctx, 90 if ctx.thorough() else 24, 400 if ctx.thorough() else 100)
    mm.replay(ctx, 3, 3, 4 if ctx.thorough() else 16)
    t = ctx.path("idx.ndjson")
    vlib.kvh(["trace", "idx", ctx.seed, 12 if ctx.thorough() else 4, ctx.rundir], out=t)
    vlib.validate_trace(ctx, "FactsTrace", t, "index sites: oligo, oligocgr, coverage bins, counter partitions", "idx")
    with open(t) as f:
        ctx.sample({"stage": "idx", "event": json.loads(f.readline())})
    al = ctx.path("aligned_rows.ndjson")
    vlib.kvh(["trace", "oligobig", ctx.seed, 0, ctx.rundir], out=al)
    vlib.validate_trace(ctx, "FactsTrace", al, "20 records of exactly 64 KiB each (every header on a 64 KiB boundary, one on 1 MiB): every row judged, both writers", "obig")
    ctx.exhaustive = False

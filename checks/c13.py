"""C13 - Python bindings compute exactly what the Rust core computes."""
import json, os
import vlib
import factcommon as fc


def stage(ctx, args, module, name, run_ev):
    out = ctx.path("py_%s.ndjson" % name)
    p = fc.pydriver(ctx, args, out)
    if p.returncode != 0:
        # the interpreter died or the driver raised: that is an outcome, not a tool error
        ctx.violation("python_" + name, {"driver_args": [str(a) for a in args], "exit": p.returncode},
                      {"stderr": p.stderr.decode(errors="replace")[-1500:]})
        return False
    ok = vlib.validate_trace(ctx, module, out, "python " + name, run_ev)
    fc.sample_events(ctx, out, 1, "python " + name)
    return ok


def run(ctx):
    ctx.rule = ("the Python module built from the working tree is driven with ASCII, mixed-case and arbitrary unicode strings and emits "
                "the same event formats as the Rust harness: the SAME TLA+ trace specifications (KmerIterTrace, MinimiserTrace, "
                "FactsTrace) that bind the Rust core judge the binding, so binding = core = specification. Iterators are built from "
                "temporaries that are released and the allocator is churned between next() calls; batch calls of sizes 0,1,7,1000,5000 "
                "are checked element by element in argument order; ValueError on a bad nucleotide (single and batch); a dead interpreter "
                "is a violation. non-trivial = runs/records judged")
    ctx.trusted += ["py/driver.py event encoding", "TLC, Json/IOUtils community modules"]
    ctx.assumptions += ["a use-after-free that happens to read intact memory is invisible to a behavioural check: the lifetime clause is exercised, not proved"]
    big = ctx.thorough()
    s = ctx.seed
    stage(ctx, ["kmer", s, 400 if big else 90, 300], "KmerIterTrace", "kmer", "kinit")
    stage(ctx, ["minimiser", s, 300 if big else 70, 300], "MinimiserTrace", "minimiser", "minit")
    fa = ctx.path("py.fa")
    vlib.kvh(["gen", "fasta", s + 7, 30 if big else 10, 300, fa])
    stage(ctx, ["oligo", fa, 1, 8], "FactsTrace", "oligo", "orec")
    stage(ctx, ["header", 1, 8], "FactsTrace", "header", "header")
    stage(ctx, ["cgr", s, 300 if big else 90, 1500], "FactsTrace", "cgr", "cgr")
    stage(ctx, ["batch", s], "FactsTrace", "batch", "orec")
    stage(ctx, ["threads", s], "FactsTrace", "two python threads on the same objects", "eq")
    # bit-exact agreement of the binding with the Rust core on the same records (CGR coordinates and oligo vectors before
    # rounding): both sides print the f64 bit patterns, the check hashes them, the specification demands equality
    import hashlib, struct, sys
    ev = []
    import random
    for tag, extra in (("dirty", []), ("clean", ["clean"]), ("long", None)):
        fb = ctx.path("bits_%s.fa" % tag)
        if extra is None:
            # strings of more than 2^20 and more than 2^16 characters (each ends in N: the CGR of both sides refuses them, the
            # oligo vectors are compared)
            rnd = random.Random(s)
            with open(fb, "w") as f:
                for name, n in (("big", 1_300_000 + rnd.randrange(1000)), ("mid", 70_000 + rnd.randrange(1000)), ("small", 9)):
                    f.write(">%s\n%sN\n" % (name, "".join(rnd.choices("ACGTacgtu", k=n))))
                # lengths at and beside 2^16, all bases in one canonical column
                for name, n, pair in (("e65535", 65535, "AT"), ("e65536", 65536, "AT"), ("e65537", 65537, "at"), ("g65536", 65536, "CG"), ("u65536", 65536, "AU")):
                    f.write(">%s\n%s\n" % (name, "".join(rnd.choices(pair, k=n))))
                # one canonical k-mer more than 2^24 times in a single string
                f.write(">huge\n%s%s%sN\n" % ("A" * (12_000_000 + rnd.randrange(1000)), "t" * (5_500_000 + rnd.randrange(1000)),
                                              "".join(rnd.choices("ACGT", k=500))))
        else:
            vlib.kvh(["gen", "fasta", s + 11, 40 if big else 14, 400, fb] + extra)
        for size in ((1, 3, 1000) if extra is not None else (1,)):
            pyo = ctx.path("bits_py.ndjson")
            p = fc.pydriver(ctx, ["bits", fb, size, 4], pyo)
            if p.returncode != 0:
                ctx.violation("python_bits", {"exit": p.returncode}, {"stderr": p.stderr.decode(errors="replace")[-1500:]})
                continue
            rs = vlib.kvh(["trace", "bits", fb, size, 4]).stdout.decode().splitlines()
            core = {}
            for line in rs:
                e = json.loads(line)
                key = (e["what"], e.get("k"), e.get("norm"), e["i"])
                if e["bits"] == "error":
                    core[key] = "error"
                else:
                    raw = b"".join(struct.pack("<Q", int(e["bits"][j:j + 16], 16)) for j in range(0, len(e["bits"]), 16))
                    core[key] = hashlib.sha256(raw).hexdigest()[:16]
            for line in open(pyo):
                e = json.loads(line)
                key = (e["what"], e.get("k"), e.get("norm"), e["i"])
                ev.append({"ev": "eq", "what": "python = core, bit patterns: %s %s" % (tag, list(key)), "size": size, "a": e["d"], "b": core.get(key, "missing")})
    bt = ctx.path("py_bits.ndjson")
    with open(bt, "w") as f:
        for e in ev:
            f.write(json.dumps(e) + "\n")
        f.write('{"ev":"eof"}\n')
    vlib.validate_trace(ctx, "FactsTrace", bt, "python = core bit-exactly (CGR, oligo vectors k=1..4)", "eq")
    ctx.evaluations = ctx.traces
    ctx.nontrivial = ctx.traces
    ctx.exhaustive = False

"""Shared stages of C09 (plain minimiser iterator) and C18 (minimiser + k-mers iterator)."""
import json, os
import vlib

CLS = "ACGTN"


def mc_table(ctx, w, m, L, alpha="01234", tables=True, which="both"):
    """B1: every string over `alpha` up to L for one (w, m): model invariants + both implementation tables."""
    env = {"VW": w, "VM": m, "VL": L, "VALPHA": alpha, "VIMPL": "/dev/null", "VIMPLK": "/dev/null"}
    cfg = "MCMinimiserModel"
    t1 = t2 = None
    if tables:
        t1 = ctx.path("min_w%d_m%d_L%d_%s.ndjson" % (w, m, L, alpha))
        t2 = ctx.path("kmin_w%d_m%d_L%d_%s.ndjson" % (w, m, L, alpha))
        vlib.kvh(["table", "minimiser", w, m, L, ctx.seed, alpha], out=t1)
        vlib.kvh(["table", "kmermin", w, m, L, ctx.seed, alpha], out=t2)
        env["VIMPL"], env["VIMPLK"] = t1, t2
        cfg = "MCMinimiser"
    r = vlib.tlc("MCMinimiser", cfg=cfg, env=env, rundir=ctx.rundir, coverage=True, timeout=3400, heap="24g")
    stage = "mc%s (w,m)=(%d,%d) L<=%d alpha=%s" % ("+tables" if tables else "", w, m, L, alpha)
    ctx.add_mc(stage, r)
    if tables:
        n, ne = vlib.table_nonempty(t1)
        ctx.evaluations += n
        ctx.nontrivial += ne
        if (w, m) == (3, 2):
            with open(t1) as f:
                row = json.loads(f.readline())
            with open(t2) as f:
                rowk = json.loads(f.readline())
            for i in (0, 100, 400, 1000):
                if i < len(row):
                    ctx.sample({"stage": "mc+tables", "w": w, "m": m, "input_index": i, "impl_runs_flat": row[i],
                                "impl_runs_with_kmers_flat": rowk[i]})
    if r.violated:
        st = vlib.parse_state(r.cex[-1]) if r.cex else {}
        inp = st.get("inp")
        text = "".join(CLS[c] for c in inp) if isinstance(inp, list) else None
        ctx.violation("mc_table", {"w": w, "m": m, "input": text, "invariant": r.violated},
                      {"model_out": st.get("out"), "ended": st.get("ended"), "alpha": alpha,
                       "note": "input shown with N for any non-ACGTU byte; `kvh table minimiser|kmermin` gives the real output"})
        return False
    for t in (t1, t2):
        if t:
            os.remove(t)
    return True


def traces(ctx, which, shards, runs, maxlen):
    def one(i):
        t = ctx.path("%s_%d.ndjson" % (which, i))
        vlib.kvh(["trace", which, ctx.seed * 1000 + i, runs, maxlen], out=t)
        return t
    files = vlib.parallel(one, range(shards))
    oks = vlib.parallel(lambda t: vlib.validate_trace(ctx, "MinimiserTrace", t, "trace " + os.path.basename(t), "minit"), files)
    with open(files[0]) as f:
        for j, line in enumerate(f):
            if j < 3:
                ctx.sample({"stage": "trace", "event": json.loads(line)})
    # the lemma LongTrace relies on: the one-pass form of "every window of the run has minimiser v" is the plain form
    r = vlib.tlc("MCRunCover", rundir=ctx.rundir, timeout=1200)
    ctx.add_mc("lemma RunCover: one-pass window-minimum test = per-window test, all sequences over 3 values up to length 8", r)
    if r.violated:
        raise vlib.ToolError("the RunCover lemma does not hold on the specification itself: " + str(r.violated))
    # positions beyond 2^16: one long run judged run by run without history (LongTrace); the thorough tier uses a sequence
    # that is clean almost everywhere (tens of thousands of windows), the quick tier one with a long ambiguous middle part
    lt = ctx.path("%s_long.ndjson" % which)
    kv = 1 if which == "kmermin" else 0
    vlib.kvh(["trace", "minlong", ctx.seed, 68500, kv, 1], out=lt)
    okl = vlib.validate_trace(ctx, "LongTrace", lt, "a 68 500-base clean sequence (positions beyond 2^16), every run judged from the input bytes",
                              "minit", timeout=3000)
    lt2 = ctx.path("%s_long2.ndjson" % which)
    # the plain iterator: 450 000 bases with 140 000 windows sharing one minimiser; the k-mer variant (whose lists TLC has to hold):
    # 310 000 bases with 4500 such windows, and its runs on the 450 000-base inputs compared with the plain iterator's
    vlib.kvh(["trace", "minlong", ctx.seed + 1, 310000 if kv else 450000, kv, 0], out=lt2)
    okl = vlib.validate_trace(ctx, "LongTrace", lt2, "a %s-base sequence: 300 000 bytes without a window, then %s windows with one minimiser "
                              "(positions beyond 2^16), every run judged from the input bytes" % (("310 000", "4500") if kv else ("450 000", "140 000")),
                              "minit", timeout=3000) and okl
    if kv:
        sm = ctx.path("kmermin_same.ndjson")
        vlib.kvh(["trace", "minsame", ctx.seed, 450000], out=sm)
        okl = vlib.validate_trace(ctx, "FactsTrace", sm, "plain = with-k-mers: the same runs on 450 000-base inputs (140 000 windows with one minimiser)", "eq") and okl
    # (w, m) from a wide set on 2500 bases: m anywhere in 1..31, windows of 1..257 m-mers (at and beside powers of two)
    def mid(i):
        t = ctx.path("%s_mid_%d.ndjson" % (which, i))
        vlib.kvh(["trace", "minmid", ctx.seed * 100 + i, kv], out=t)
        return t
    mids = vlib.parallel(mid, range(24 if ctx.thorough() else 8))
    okm = vlib.parallel(lambda t: vlib.validate_trace(ctx, "LongTrace", t, "2500 bases, (w, m) from the wide set: " + os.path.basename(t), "minit",
                                                      timeout=3000), mids)
    okl = all(okm) and okl
    # a window of more than 2^16 m-mers (thorough tier: judging one run costs a pass over 66 000 bases)
    if ctx.thorough() and which == "minimiser":
        wd = ctx.path("min_wide.ndjson")
        vlib.kvh(["trace", "minwide", ctx.seed], out=wd)
        okl = vlib.validate_trace(ctx, "LongTrace", wd, "a window of 65 600 m-mers: the new leftmost minimum beyond slot 2^16", "minit", timeout=3000) and okl
    # every gap length 0..130 of one repeated ambiguous byte between clean stretches just longer than a window
    gp = ctx.path("%s_gaps.ndjson" % which)
    vlib.kvh(["trace", "gaps", ctx.seed, which], out=gp)
    okl = vlib.validate_trace(ctx, "LongTrace", gp, "gaps of 0..130 identical ambiguous bytes", "minit") and okl
    # count(), last(), nth() on partially consumed iterators
    ia = ctx.path("%s_iterapi.ndjson" % which)
    vlib.kvh(["trace", "iterapi", ctx.seed, 600 if ctx.thorough() else 150], out=ia)
    okl = vlib.validate_trace(ctx, "FactsTrace", ia, "count / last / nth on partially consumed iterators", "iterapi") and okl
    return all(oks) and okl

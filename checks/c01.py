"""C01 - k-mer iterator yields exactly the valid windows, in order, 2-bit encoded."""
import json, os
import vlib


def mc_table(ctx, k, L):
    """B1: exhaustive model check over all class strings up to L + implementation table."""
    table = ctx.path("kmer_k%d_L%d.ndjson" % (k, L))
    vlib.kvh(["table", "kmer", k, L, ctx.seed], out=table)
    r = vlib.tlc("MCKmerIter", env={"VK": k, "VL": L, "VIMPL": table}, rundir=ctx.rundir, coverage=True,
                 timeout=3000)
    ctx.add_mc("mc+table k=%d L<=%d" % (k, L), r, inputs=r.distinct)
    n, ne = vlib.table_nonempty(table)
    ctx.evaluations += n
    ctx.nontrivial += ne
    if r.violated:
        st = vlib.parse_state(r.cex[-1]) if r.cex else {}
        inp = st.get("inp")
        ctx.violation("mc_table", {"k": k, "input_classes": inp, "invariant": r.violated},
                      {"model_state": st, "note": "classes 0..3 = A C G T/U, 4 = any other byte; "
                       "`kvh table kmer` renders them with seed-chosen representatives"})
        return False
    # keep a few table rows as samples
    if k == 2:
        with open(table) as f:
            first = json.loads(f.readline())
        for i in (0, 7, 31, 200):
            ctx.sample({"stage": "mc_table", "k": k, "input_index": i, "impl_flat_pairs": first[i]})
    os.remove(table)
    return True


def traces(ctx, shards, runs, maxlen):
    def one(i):
        t = ctx.path("ktrace_%d.ndjson" % i)
        vlib.kvh(["trace", "kmer", ctx.seed * 1000 + i, runs, maxlen], out=t)
        return t
    files = vlib.parallel(one, range(shards))
    oks = vlib.parallel(lambda t: vlib.validate_trace(ctx, "KmerIterTrace", t, "trace k<=31 " + os.path.basename(t), "kinit"), files)
    with open(files[0]) as f:
        for j, line in enumerate(f):
            if j < 3:
                ctx.sample({"stage": "trace", "event": json.loads(line)})
    return all(oks)


def run(ctx):
    L = 9 if ctx.thorough() else 7
    ctx.rule = ("B1: every string over {A,C,G,T/U,other} up to length L for k=1..4, model invariants + equality with the "
                "real iterator's output; B2: random byte strings (any byte 4..255), k=1..31, every next() validated "
                "against the model incl. internal registers; byte table: every byte 4..255 in 5 contexts. "
                "non-trivial = input with at least one emitted k-mer (counted by the model: states with out # <<>>) "
                "- reported as distinct inputs explored")
    ctx.trusted += ["harness enumeration order = TLC's bijective base-5 index", "digits32(u64) conversion",
                    "TLC, Json/IOUtils community modules"]
    for k in (1, 2, 3, 4):
        if not mc_table(ctx, k, L):
            return
    # class table: every byte value
    t = ctx.path("kbytes.ndjson")
    vlib.kvh(["trace", "kmerbytes"], out=t)
    vlib.validate_trace(ctx, "KmerIterTrace", t, "byte table 4..255", "kinit")
    # random traces
    if ctx.thorough():
        traces(ctx, 16, 400, 400)
    else:
        traces(ctx, 8, 70, 300)
    # positions beyond 2^16: one long run judged item by item without history (LongTrace)
    dense = 1
    lt = ctx.path("klong.ndjson")
    vlib.kvh(["trace", "kmerlong", ctx.seed, 68500, dense], out=lt)
    vlib.validate_trace(ctx, "LongTrace", lt, "a 68 500-base sequence (positions beyond 2^16), every item judged from the input bytes", "kinit")
    gp = ctx.path("kgaps.ndjson")
    vlib.kvh(["trace", "gaps", ctx.seed, "kmer"], out=gp)
    vlib.validate_trace(ctx, "LongTrace", gp, "gaps of 0..130 identical ambiguous bytes", "kinit")
    ia = ctx.path("kiterapi.ndjson")
    vlib.kvh(["trace", "iterapi", ctx.seed + 3, 600 if ctx.thorough() else 150], out=ia)
    vlib.validate_trace(ctx, "FactsTrace", ia, "count / last / nth on partially consumed iterators", "iterapi")
    ctx.exhaustive = False

"""C11 - whole-sequence CGR follows the chaos-game midpoint rule inside the square."""
import json, os
import vlib
import factcommon as fc


def mc(ctx, L, size):
    t = ctx.path("cgr_S%d.ndjson" % size)
    vlib.kvh(["table", "cgr", L, ctx.seed, size], out=t)
    r = vlib.tlc("MCCgr", env={"VL": L, "VIMPL": t}, rundir=ctx.rundir, coverage=True, timeout=3000)
    ctx.add_mc("mc+table L<=%d S=%d" % (L, size), r)
    n, ne = vlib.table_nonempty(t)
    ctx.evaluations += n
    ctx.nontrivial += ne
    if r.violated:
        st = vlib.parse_state(r.cex[-1]) if r.cex else {}
        inp = st.get("inp")
        ctx.violation("mc_table", {"S": size, "input": "".join("ACGTN"[c] for c in inp) if isinstance(inp, list) else None,
                                   "invariant": r.violated}, {"model_points": st.get("pts"), "rejected": st.get("rejected")})
        return False
    if size == 3:
        with open(t) as f:
            row = json.loads(f.readline())
        ctx.sample({"stage": "mc_table", "S": 3, "input_index": 33, "impl numerators X1,Y1,X2,Y2..": row[33]})
    os.remove(t)
    return True


def cli_runs(ctx, n, maxlen):
    """clean files through the CLI (rows decoded to cgr events) and one file with a bad record (refusal)"""
    cli = vlib.build_cli()
    evs = []
    for j, size in enumerate((None, 3, 1000)):
        fa = ctx.path("cli_cgr_%d.fa" % j)
        vlib.kvh(["gen", "fasta", ctx.seed * 10 + j, n, maxlen, fa, "clean"])
        # the generator puts a bad byte into some records: keep a clean copy and a dirty copy
        recs = open(fa, "rb").read().split(b">")[1:]
        clean, dirty = [], []
        for r in recs:
            h, s = r.split(b"\n", 1)
            s = s.replace(b"\n", b"")
            ok = all(c in b"ACGTUacgtu" for c in s)
            (clean if ok else dirty).append((h, s))
        fc_ = ctx.path("cli_cgr_clean_%d.fa" % j)
        with open(fc_, "wb") as f:
            for h, s in clean:
                f.write(b">" + h + b"\n" + s + b"\n")
        out = ctx.path("cli_cgr_%d.out" % j)
        cmd = [cli, "comp", "cgr", "-i", fc_, "-o", out, "-t", str(1 + 5 * j)]
        if size:
            cmd += ["-v", str(size)]
        p = vlib.sh(cmd, timeout=300)
        if p.returncode != 0 or not os.path.exists(out):
            ctx.violation("cli", {"cmd": cmd[1:], "exit": p.returncode}, {"stderr": p.stderr.decode(errors="replace")[-500:]})
            continue
        ev = ctx.path("cli_cgr_%d.ndjson" % j)
        vlib.kvh(["decode", "cgr", fc_, out, size or 1, "cli"], out=ev)
        evs.append(ev)
        # refusal: clean records followed by one dirty record: the run must fail / complain and write no row for it
        if not dirty and clean:
            h, sq = max(clean, key=lambda r: len(r[1]))
            pos = [0, len(sq) - 1, len(sq) // 2][j % 3] if sq else 0
            bad = [b"N", b"x", b"-"][j % 3]
            dirty = [(h + b"_dirty", sq[:pos] + bad + sq[pos + 1:] if sq else bad)]
        if dirty:
            fd = ctx.path("cli_cgr_dirty_%d.fa" % j)
            keep = clean[:3]
            with open(fd, "wb") as f:
                for h, s in keep + dirty[:1]:
                    f.write(b">" + h + b"\n" + s + b"\n")
            outd = ctx.path("cli_cgr_dirty_%d.out" % j)
            if os.path.exists(outd):
                os.remove(outd)
            p = vlib.sh([cli, "comp", "cgr", "-i", fd, "-o", outd, "-t", "2"], timeout=300)
            rows = open(outd, "rb").read().split(b"\n") if os.path.exists(outd) else []
            rows = [r for r in rows if r]
            refused = (p.returncode != 0 or len(p.stderr) > 0) and len(rows) <= len(keep)
            evd = ctx.path("cli_cgr_dirty_%d.ndjson" % j)
            with open(evd, "w") as f:
                # recorded as the outcome for the dirty record: err=1 iff refused with no coordinates for it
                f.write(json.dumps({"ev": "cgr", "src": "cli-refusal", "s": 1, "bytes": list(dirty[0][1]), "err": 1 if refused else 0,
                                    "npts": 0 if refused else len(dirty[0][1]), "nexact": 0, "pts": [], "tops": [],
                                    "exit": p.returncode, "rows": len(rows)}) + "\n")
            evs.append(evd)
    return fc.cat_eof(evs, ctx.path("cli_cgr.ndjson"))


def run(ctx):
    ctx.rule = ("B1: every string over {A,C,G,T/U,other} up to L through CgrComputer::vectorise_one for S in {1,3,1000}: the model's "
                "bit paths (midpoint rule as dyadic bit paths, prefix determinism, sub-square containment, rejection iff a "
                "non-nucleotide byte) and equality of every coordinate's exact numerator with the model; B2: random sequences "
                "(lengths to thousands: exact numerators for the first 29 points, top-20-bit containment beyond), 6 square sizes, "
                "file path with threads 1..16 and batch limits {1,64,4GiB}, CLI incl. refusal of a dirty record. "
                "non-trivial = inputs with at least one point")
    ctx.trusted += ["f64 -> exact numerator decoding (cgrdec.rs: scaling by powers of two, integer division by S)",
                    "TLC, Json/IOUtils community modules"]
    ctx.assumptions += ["floating-point exactness of the implementation is established only through the decoder's exact-integer check"]
    L = 8 if ctx.thorough() else 7
    for size in (1, 3, 1000):
        if not mc(ctx, L, size):
            return
    t = ctx.path("cgr_lib.ndjson")
    vlib.kvh(["trace", "cgr", ctx.seed, 240 if ctx.thorough() else 60, 3000 if ctx.thorough() else 1200], out=t)
    fc.validate(ctx, t, "library vectorise_one, 6 sizes", "cgr")
    fc.sample_events(ctx, t, 1, "cgr lib")
    t2 = ctx.path("cgr_file.ndjson")
    vlib.kvh(["trace", "cgrfile", ctx.seed, 40 if ctx.thorough() else 12, 300, ctx.rundir], out=t2)
    fc.validate(ctx, t2, "file path: threads x batch limits", "cgr")
    c = cli_runs(ctx, 24 if ctx.thorough() else 10, 200)
    fc.validate(ctx, c, "CLI comp cgr incl. refusal", "cgr")
    # the Python binding (vectorise_one / vectorise_batch, ValueError), same judge
    pe = ctx.path("py_cgr.ndjson")
    p = fc.pydriver(ctx, ["cgr", ctx.seed + 3, 200 if ctx.thorough() else 60, 900], pe)
    if p.returncode != 0:
        ctx.violation("python_cgr", {"exit": p.returncode}, {"stderr": p.stderr.decode(errors="replace")[-1500:]})
    else:
        fc.validate(ctx, pe, "python CgrComputer vectorise_one / vectorise_batch", "cgr")
    ctx.exhaustive = False

"""C17 - outputs depend only on input and options, not on what is already on disk."""
import hashlib, itertools, json, os, random, re, shutil
import vlib

RE_OPEN = re.compile(r'^(\d+)\s+openat\(AT_FDCWD, "([^"]*)", ([A-Z_|]+)(?:, \d+)?\)\s+=\s+(-?\d+)')
RE_FTRUNC = re.compile(r'^(\d+)\s+ftruncate\((\d+), (\d+)\)\s+=\s+0')
RE_UNLINK = re.compile(r'^(\d+)\s+unlink(?:at)?\((?:AT_FDCWD, )?"([^"]*)"')


def name_of(path, loc):
    """file under the output location -> <<kind, a, b>>; None for anything else"""
    ap = os.path.abspath(path)
    if ap == os.path.abspath(loc):
        return ["out", 0, 0]
    if os.path.dirname(ap) != os.path.abspath(loc):
        return None
    b = os.path.basename(ap)
    if b == "kmers.counts":
        return ["counts", 0, 0]
    if b == "kmers.vectors":
        return ["vectors", 0, 0]
    m = re.match(r"temp_kmers\.part_(\d+)_chunk_(\d+)$", b)
    if m:
        return ["temp", int(m.group(1)), int(m.group(2))]
    return ["other", 0, 0]


def fs_events(strace_log, loc, cwd):
    """strace -f log -> effect events on the output location. A write-open without O_TRUNC counts as truncating only if an
    ftruncate on that descriptor follows (the memory-mapped writer's set_len)."""
    evs = []
    pending = {}          # fd -> index of a "W" event that an ftruncate may still upgrade
    unfinished = {}       # pid -> beginning of a call that another thread's line interrupted
    for raw in open(strace_log, errors="replace"):
        line = raw.rstrip("\n")
        mu = re.match(r"^(\d+)\s+(.*) <unfinished \.\.\.>$", line)
        if mu:
            unfinished[mu.group(1)] = mu.group(2)
            continue
        mr = re.match(r"^(\d+)\s+<\.\.\. \w+ resumed>(.*)$", line)
        if mr and mr.group(1) in unfinished:
            line = mr.group(1) + " " + unfinished.pop(mr.group(1)) + mr.group(2)
        m = RE_OPEN.match(line)
        if m:
            path, flags, fd = m.group(2), m.group(3).split("|"), int(m.group(4))
            if fd < 0:
                continue
            nm = name_of(os.path.join(cwd, path), loc)
            if nm is None or "O_DIRECTORY" in flags:
                continue
            if "O_WRONLY" in flags or "O_RDWR" in flags:
                op = "C" if "O_TRUNC" in flags else "W"
                evs.append({"ev": "fs", "op": op, "name": nm, "flags": m.group(3)})
                if op == "W":
                    pending[fd] = len(evs) - 1
            else:
                evs.append({"ev": "fs", "op": "R", "name": nm})
            continue
        m = RE_FTRUNC.match(line)
        if m and int(m.group(2)) in pending:
            evs[pending.pop(int(m.group(2)))]["op"] = "C"
            continue
        m = RE_UNLINK.match(line)
        if m:
            nm = name_of(os.path.join(cwd, m.group(2)), loc)
            if nm is not None:
                evs.append({"ev": "fs", "op": "U", "name": nm})
    return evs


def sorted_lines(data):
    return b"\n".join(sorted(data.split(b"\n")))


def norm_m2s(data):
    out = []
    for ln in data.split(b"\n"):
        if b"\t[" in ln:
            k, rest = ln.split(b"\t", 1)
            ln = k + b"\t" + b",".join(sorted(re.findall(rb"\([^)]*\)", rest)))
        out.append(ln)
    return b"\n".join(sorted(out))


def run(ctx):
    ctx.rule = ("model: FsHist - every history of <= 3 runs over 17 abstract run kinds (single-file writers; counter with 0/1/3 chunks x 1/2 "
                "partitions x delete or not; coverage) sharing one location: ReadOwn (a run reads only files it created itself), ResultFresh "
                "(result files entirely the last run's), NoOwnTemp; B4: histories of 2-3 concrete runs (oligo mmap small/large, oligo batch, cgr, "
                "min s2m/m2s sharing one -o path; ctr through the library with tiny ceilings giving several chunks/partitions with and without "
                "delete, ctr and cov through the CLI sharing one directory) executed for real under strace: every open/ftruncate/unlink on the "
                "output location becomes an effect event validated against FsHist (write-opens must truncate), and every result file after the "
                "history is compared with the last run executed alone in a fresh location; same command twice. non-trivial = histories executed")
    ctx.trusted += ["strace log -> effect events (checks/c17.py fs_events)", "normalisation of unordered outputs before hashing", "TLC, Json/IOUtils community modules"]
    r = vlib.tlc("MCFsHist", rundir=ctx.rundir, coverage=True, timeout=1200)
    ctx.add_mc("mc FsHist: all histories of <= 3 runs", r)
    if r.violated:
        ctx.violation("mc_fshist", {"invariant": r.violated}, {"cex": r.cex[-1] if r.cex else None})
        return
    cli = vlib.build_cli()
    vlib.build_harness()
    ins = []
    for j, (n, ml) in enumerate([(3, 60), (12, 200), (6, 120)]):
        p = ctx.path("in%d.fa" % j)
        vlib.kvh(["gen", "fasta", ctx.seed * 7 + j, n, ml, p])
        ins.append(p)
    cleanfa = ctx.path("clean.fa")
    vlib.kvh(["gen", "fasta", ctx.seed, 5, 80, cleanfa, "clean"])
    # concrete runs: (label, kind, delete, argv builder, normaliser per result file)
    S = {
        "oligo-mmap-small": ("single", lambda o: [cli, "comp", "oligo", "-i", ins[0], "-o", o, "-k", "3", "-t", "2"], None),
        "oligo-mmap-large": ("single", lambda o: [cli, "comp", "oligo", "-i", ins[1], "-o", o, "-k", "4", "-t", "5", "-H"], None),
        "oligo-batch": ("single", lambda o: [cli, "comp", "oligo", "-i", ins[2], "-o", o, "-k", "3", "-c", "-t", "3"], None),
        "cgr": ("single", lambda o: [cli, "comp", "cgr", "-i", cleanfa, "-o", o, "-t", "2"], None),
        "min-s2m": ("single", lambda o: [cli, "min", "-i", ins[1], "-o", o, "-m", "7", "-w", "12", "-p", "s2m", "-t", "4"], sorted_lines),
        # the same input and settings but another delimiter: a result of exactly the same size, different bytes
        "oligo-mmap-small-csv": ("single", lambda o: [cli, "comp", "oligo", "-i", ins[0], "-o", o, "-k", "3", "-t", "2", "-p", "csv"], None),
        "oligo-mmap-small-tsv": ("single", lambda o: [cli, "comp", "oligo", "-i", ins[0], "-o", o, "-k", "3", "-t", "3", "-p", "tsv"], None),
        "min-m2s": ("single", lambda o: [cli, "min", "-i", ins[2], "-o", o, "-m", "8", "-w", "0", "-p", "m2s", "-t", "3"], norm_m2s),
    }
    D = {
        "ctr-lib-chunks-keep": ("ctr", 0, lambda o: [vlib.KVH, "ctrlib", ins[1], o, "5", "2", "150", "0", "0"]),
        "ctr-lib-chunks-del": ("ctr", 1, lambda o: [vlib.KVH, "ctrlib", ins[2], o, "11", "3", "40", "1", "1"]),
        "ctr-lib-1chunk-keep": ("ctr", 0, lambda o: [vlib.KVH, "ctrlib", ins[0], o, "4", "1", "1000000", "0", "0"]),
        "ctr-cli": ("ctr", 1, lambda o: [cli, "ctr", "-i", ins[1], "-o", o, "-k", "10", "-t", "2"]),
        "cov-cli": ("cov", 1, lambda o: [cli, "cov", "-i", ins[2], "-o", o, "-k", "7", "-s", "5", "-c", "5", "-t", "3"]),
        "cov-cli-alt": ("cov", 1, lambda o: [cli, "cov", "-i", ins[0], "-a", ins[1], "-o", o, "-k", "9", "-s", "5", "-c", "6", "-t", "1", "--counts"]),
    }
    # runs on an input without records: whatever an earlier run left must not survive as a result
    empty = ctx.path("empty.fa")
    open(empty, "w").close()
    S["oligo-mmap-empty"] = ("single", lambda o: [cli, "comp", "oligo", "-i", empty, "-o", o, "-k", "3", "-t", "2"], None)
    S["min-s2m-empty"] = ("single", lambda o: [cli, "min", "-i", empty, "-o", o, "-m", "7", "-w", "0", "-p", "s2m", "-t", "2"], sorted_lines)
    D["cov-cli-empty"] = ("cov", 1, lambda o: [cli, "cov", "-i", empty, "-o", o, "-k", "7", "-s", "5", "-c", "5", "-t", "2"])
    D["ctr-cli-empty"] = ("ctr", 1, lambda o: [cli, "ctr", "-i", empty, "-o", o, "-k", "10", "-t", "2"])
    rng = random.Random(ctx.seed)
    hs = [list(h) for n in (2, 3) for h in itertools.product(sorted(S), repeat=n)]
    hd = [list(h) for n in (2, 3) for h in itertools.product(sorted(D), repeat=n)]
    rng.shuffle(hs)
    rng.shuffle(hd)
    quota = 150 if ctx.thorough() else 22
    # same command twice is always included
    same_size = [["oligo-mmap-small", "oligo-mmap-small-csv"], ["oligo-mmap-small-csv", "oligo-mmap-small-tsv", "oligo-mmap-small"],
                 ["oligo-batch", "oligo-mmap-small-tsv", "oligo-mmap-small-csv"]]
    # a counts table left by another run (other input, other k) in the directory a coverage run with a separate counting input uses
    stale_tables = [["cov-cli", "cov-cli-alt"], ["ctr-cli", "cov-cli-alt"], ["cov-cli-alt", "cov-cli"], ["ctr-lib-chunks-keep", "cov-cli-alt", "cov-cli"]]
    chosen = [[x, x] for x in sorted(S)] + same_size + hs[:quota] + [[x, x] for x in sorted(D)] + stale_tables + hd[:quota]
    events = []

    def execute(label, loc, trace, loc_arg=None):
        single = label in S
        kind, delete = ("single", 0) if single else (D[label][0], D[label][1])
        argv = (S[label][1] if single else D[label][2])(loc_arg or loc)
        log = ctx.path("strace_%d.log" % os.getpid() + "_" + hashlib.md5((label + loc).encode()).hexdigest()[:8])
        cmd = (["strace", "-f", "-e", "trace=openat,ftruncate,unlink,unlinkat", "-o", log] if trace else []) + argv
        p = vlib.sh(cmd, timeout=600, cwd=ctx.rundir)
        evs = []
        if trace:
            evs.append({"ev": "frun", "label": label, "kind": kind, "delete": delete, "exit": p.returncode})
            evs += fs_events(log, loc, ctx.rundir)
            evs.append({"ev": "fend"})
            os.remove(log)
        return p.returncode, evs

    def results(label, loc):
        if label in S:
            nz = S[label][2]
            return {"out": (loc, nz)}
        d = {"counts": (os.path.join(loc, "kmers.counts"), sorted_lines)}
        if D[label][0] == "cov":
            d["vectors"] = (os.path.join(loc, "kmers.vectors"), None)
        return d

    def dig(path, nz):
        if not os.path.exists(path):
            return "missing"
        data = open(path, "rb").read()
        return hashlib.sha256(nz(data) if nz else data).hexdigest()[:16]

    for hi, h in enumerate(chosen):
        shared = ctx.path("shared_%d" % hi)
        fresh = ctx.path("fresh_%d" % hi)
        for p in (shared, fresh):
            if os.path.isdir(p):
                shutil.rmtree(p)
            elif os.path.exists(p):
                os.remove(p)
        for label in h:
            rc, evs = execute(label, shared, True)
            events += evs
        # the fresh location is spelled in different ways (the spelling of a path is not an input either): directories that do
        # not exist yet below directories that do not exist yet, a trailing slash; for single files a bare relative name, ./name,
        # a name with a blank and a non-ASCII letter, names containing
        # the result files' names or characters special to templates and patterns
        shape = hi % 6
        fresh_real, fresh_arg = fresh, None
        if h[-1] in D:
            if shape == 1:
                fresh_real = os.path.join(fresh, "deep", "er")
            elif shape == 2:
                fresh_arg = fresh + "/"
            elif shape == 3:
                fresh_real = os.path.join(fresh, "one more")
                fresh_arg = os.path.relpath(fresh_real, ctx.rundir) + "/"
            elif shape == 4:
                fresh_real = fresh + "_kmer_counts_k7"        # the names of the result files occur in the path itself
            elif shape == 5:
                fresh_real = fresh + "_{a} }{:x"              # characters that mean something to formatting templates
        else:
            if shape == 1:
                fresh_arg = os.path.basename(fresh)
            elif shape == 2:
                fresh_arg = "./" + os.path.basename(fresh)
            elif shape == 3:
                fresh_real = fresh + " \u00fc x"
                fresh_arg = os.path.basename(fresh_real)
            elif shape == 4:
                fresh_real = fresh + "_{}%s[1]*.vectors"
        rc, _ = execute(h[-1], fresh_real, False, fresh_arg)
        for name, (path, nz) in results(h[-1], shared).items():
            fpath = path.replace(shared, fresh_real)
            events.append({"ev": "eq", "what": "history %s: %s (fresh location spelled in way %d)" % ("+".join(h), name, shape),
                           "a": dig(path, nz), "b": dig(fpath, nz)})
        if fresh_real != fresh and not fresh_real.startswith(fresh + os.sep) and os.path.exists(fresh_real):
            if os.path.isdir(fresh_real):
                shutil.rmtree(fresh_real)
            else:
                os.remove(fresh_real)
        for p in (shared, fresh):
            if os.path.isdir(p):
                shutil.rmtree(p)
            elif os.path.exists(p):
                os.remove(p)
    t = ctx.path("fs.ndjson")
    with open(t, "w") as f:
        for e in events:
            f.write(json.dumps(e) + "\n")
        f.write('{"ev":"eof"}\n')
    vlib.validate_trace(ctx, "FsTrace", t, "B4: %d histories executed under strace + result comparison with a fresh location" % len(chosen), "frun")
    ctx.evaluations += len(chosen)
    ctx.nontrivial += len(chosen)
    for e in events[:6]:
        ctx.sample({"stage": "history", "event": e})
    ctx.exhaustive = False

//! Very many small records (ordinals beyond 2^16, branches taken every 10 000th record) drawn from a small pool, so that the
//! specification can judge every one of them: the events carry the pool, the pool entry of every record and, for every record,
//! which of the (few) distinct output lines it received.
use crate::ctrrun::{decode_counts, list_temps, mem_for_limit};
use crate::files::*;
use crate::minrun::{decode_m2s, decode_s2m};
use crate::util::*;
use counter::CountComputer;
use serde_json::{json, Value};
use std::collections::HashMap;

fn intern(table: &mut Vec<Value>, index: &mut HashMap<String, usize>, v: Value) -> usize {
    let key = v.to_string();
    if let Some(&i) = index.get(&key) {
        return i;
    }
    table.push(v);
    index.insert(key, table.len());
    table.len()
}

/// trace many <seed> <dir> <nrec> <what>   what: oligo | min | ctr | all
pub fn many(seed: u64, dir: &str, nrec: usize, what: &str) {
    let mut rng = Rng::new(seed);
    let mut pool: Vec<Vec<u8>> = vec![Vec::new(), b"AC".to_vec(), b"NNNNN".to_vec()];
    for j in 0..9 {
        let len = 4 + 2 * j + rng.below(3) as usize;
        pool.push((0..len).map(|x| if j == 4 && x == 7 { b'N' } else { *rng.pick(b"ACGTacgu") }).collect());
    }
    let order: Vec<usize> = (0..nrec).map(|_| rng.below(pool.len() as u64) as usize).collect();
    let order1: Vec<usize> = order.iter().map(|&p| p + 1).collect();
    let seqs: Vec<Vec<u8>> = order.iter().map(|&p| pool[p].clone()).collect();
    let inp = format!("{}/many.fa", dir);
    let out = format!("{}/many.out", dir);
    write_fasta(&inp, &seqs);

    // oligo rows through both writers
    for (k, norm, wp, mem) in [(3usize, true, WPath::Mmap, None), (2usize, false, WPath::Batch, Some(100_000usize))] {
        if what != "oligo" && what != "all" {
            break;
        }
        let _ = std::fs::remove_file(&out);
        let r = std::panic::catch_unwind(|| run_oligo(&inp, &out, k, norm, wp, 4, " ", false, mem));
        if !matches!(r, Ok(Ok(()))) {
            println!("{}", json!({"ev":"crash","kind":"panic","what":"oligo many"}));
            continue;
        }
        let (mut table, mut index, mut ncols) = (Vec::new(), HashMap::new(), Vec::new());
        let mut lineidx = Vec::new();
        for l in lines_of(&out) {
            let (row, n) = sparse_row(&l, " ", norm);
            let before = table.len();
            let i = intern(&mut table, &mut index, json!([n, row]));
            if table.len() > before {
                ncols.push(n);
            }
            lineidx.push(i);
        }
        let distinct: Vec<Value> = table.iter().map(|v| v[1].clone()).collect();
        println!(
            "{}",
            json!({"ev":"manyo","k":k,"norm": if norm {1} else {0},"pool":pool,"order":order1,"ncols":ncols,"distinct":distinct,"lineidx":lineidx})
        );
    }

    // minimiser listings
    for (w, m, m2s) in [(6usize, 3usize, false), (0, 4, false), (6, 3, true), (0, 2, true)] {
        if what != "min" && what != "all" {
            break;
        }
        let _ = std::fs::remove_file(&out);
        let r = std::panic::catch_unwind(|| {
            if m2s {
                misc::minimisers::bin_sequences(w, m, &inp, &out, 4)
            } else {
                misc::minimisers::seq_to_min(w, m, &inp, &out, 4)
            }
        });
        if r.is_err() {
            println!("{}", json!({"ev":"crash","kind":"panic","what":"min many"}));
            continue;
        }
        let mut evs = Vec::new();
        let (mut table, mut index) = (Vec::new(), HashMap::new());
        let (mut ids, mut lineidx) = (Vec::new(), Vec::new());
        let (mut stray, mut keys, mut dkeys) = (0usize, 0usize, 0usize);
        if !m2s {
            decode_s2m(&out, &mut evs);
            let mut lines: Vec<(i64, Value)> = evs.iter().filter(|e| e["ev"] == "s2mline").map(|e| (e["rec"].as_i64().unwrap(), e["runs"].clone())).collect();
            lines.sort_by_key(|x| x.0);
            for (id, runs) in lines {
                ids.push(id);
                lineidx.push(intern(&mut table, &mut index, runs));
            }
        } else {
            decode_m2s(&out, &mut evs);
            let mut per: Vec<Vec<(i64, Value)>> = vec![Vec::new(); nrec];
            let mut seen = std::collections::HashSet::new();
            for e in evs.iter().filter(|e| e["ev"] == "m2sline") {
                keys += 1;
                if seen.insert(e["v"].to_string()) {
                    dkeys += 1;
                }
                for it in e["items"].as_array().unwrap() {
                    let (id, s, en) = (it[0].as_i64().unwrap(), it[1].as_i64().unwrap(), it[2].as_i64().unwrap());
                    if id < 0 || id as usize >= nrec {
                        stray += 1;
                    } else {
                        per[id as usize].push((s, json!([e["v"], s, en])));
                    }
                }
            }
            for (i, mut v) in per.into_iter().enumerate() {
                v.sort_by_key(|x| x.0);
                let runs: Vec<Value> = v.into_iter().map(|x| x.1).collect();
                ids.push(i as i64);
                lineidx.push(intern(&mut table, &mut index, json!(runs)));
            }
        }
        println!(
            "{}",
            json!({"ev":"manymin","mode": if m2s {"m2s"} else {"s2m"},"w":w,"m":m,"pool":pool,"order":order1,"ids":ids,"distinct":table,
                   "lineidx":lineidx,"stray":stray,"keys":keys,"dkeys":dkeys})
        );
    }

    // counting: several chunks
    if what == "ctr" || what == "all" {
        let od = format!("{}/many_ctr", dir);
        let _ = std::fs::remove_dir_all(&od);
        std::fs::create_dir_all(&od).unwrap();
        let k = 4usize;
        let r = std::panic::catch_unwind(|| {
            let mut c = CountComputer::new(inp.clone(), od.clone(), k);
            c.set_threads(4);
            c.set_max_memory(mem_for_limit(200_000));
            c.count();
            c.merge(true);
        });
        let mut mult = vec![0usize; pool.len()];
        for &p in &order {
            mult[p] += 1;
        }
        match r {
            Ok(()) => println!(
                "{}",
                json!({"ev":"manyctr","k":k,"pool":pool,"mult":mult,"lines":decode_counts(&format!("{}/kmers.counts", od), false),"temps":list_temps(&od).len()})
            ),
            Err(_) => println!("{}", json!({"ev":"crash","kind":"panic","what":"ctr many"})),
        }
        let _ = std::fs::remove_dir_all(&od);
    }
    let _ = std::fs::remove_file(&inp);
    let _ = std::fs::remove_file(&out);
    println!("{}", json!({"ev":"eof"}));
}

//! Runs of the batch writers under the recorder (free-running; the loop itself is sequential).
use crate::files::*;
use crate::mmaprun::ev_json;
use crate::sched::*;
use crate::util::*;
use serde_json::{json, Value};

/// k = 1, raw counts: record j has j+1 A/T letters and any number of C/G letters: first column = j+1
pub fn coded_raw_records(n: usize, rng: &mut Rng) -> Vec<Vec<u8>> {
    (0..n)
        .map(|j| {
            let mut cls: Vec<u8> = vec![0; j + 1];
            for _ in 0..rng.below(20) {
                cls.push(1 + rng.below(2) as u8);
            }
            // shuffle a little: A's and T's both count for column 0
            for c in cls.iter_mut() {
                if *c == 0 && rng.chance(1, 3) {
                    *c = 3;
                }
            }
            let m = cls.len();
            for i in (1..m).rev() {
                let j2 = rng.below(i as u64 + 1) as usize;
                cls.swap(i, j2);
            }
            render(&cls, rng, true)
        })
        .collect()
}

pub fn clip(mem: usize) -> u64 {
    (mem as u64).min(1_000_000_000)
}

pub fn file_rows_raw(out: &str, n: usize, delim: &str, header: bool, evs: &mut Vec<Value>) {
    file_rows_raw_e(out, n, delim, header, evs, &[])
}

/// `empty[i]` = record i has no bases: its row is all zero and cannot carry an ordinal; an all-zero row at position i is
/// decoded as record i exactly when record i is such a record
pub fn file_rows_raw_e(out: &str, n: usize, delim: &str, header: bool, evs: &mut Vec<Value>, empty: &[bool]) {
    let data = std::fs::read(out).unwrap_or_default();
    let nul = data.iter().filter(|&&b| b == 0).count();
    let text = String::from_utf8_lossy(&data).to_string();
    let mut lines: Vec<&str> = text.split('\n').collect();
    if lines.last() == Some(&"") {
        lines.pop();
    }
    evs.push(json!({"ev":"file","size":data.len(),"nul":nul,"lines":lines.len(),"hdr": if header {1} else {0}}));
    let _ = n;
    for (i, l) in lines.iter().skip(if header { 1 } else { 0 }).enumerate() {
        let first = l.split(delim).next().unwrap_or("");
        let allzero = l.split(delim).all(|t| t == "0");
        let rec = if allzero { if empty.get(i).copied().unwrap_or(false) { i as i64 } else { -1 } } else { parse_val(first, false).map(|c| c - 1).unwrap_or(-1) };
        evs.push(json!({"ev":"row","i":i,"rec":rec}));
    }
}

/// trace oligobatch <seed> <runs> <dir> <maxn>
pub fn oligo_batch(seed: u64, runs: usize, dir: &str, maxn: usize) {
    let mut rng = Rng::new(seed);
    for i in 0..runs {
        // every fifth run is one large batch on many threads (parallel conversion of hundreds of records in one flush)
        let big = i % 5 == 2;
        let n = if i % 6 == 0 { rng.below(3) as usize + 1 } else if big { rng.range(300, 700) as usize } else { rng.range(1, maxn as u64) as usize };
        let mut seqs = coded_raw_records(n, &mut rng);
        // records without bases: somewhere in the middle and, in some runs, as the last records of the file (so that the final
        // batch may hold nothing but such records)
        let mut n = n;
        if i % 3 == 1 {
            for _ in 0..(1 + rng.below(2)) {
                seqs.push(Vec::new());
                n += 1;
            }
        }
        let inp = format!("{}/ob_in.fa", dir);
        let out = format!("{}/ob_out.txt", dir);
        write_fasta(&inp, &seqs);
        let _ = std::fs::remove_file(&out);
        let mem = if big { 1usize << 32 } else { *rng.pick(&[1usize, 7, 64, 1 << 32]) };
        let threads = if big { 4 + rng.below(13) as usize } else { 1 + rng.below(16) as usize };
        let delim = *rng.pick(&[" ", ",", "\t"]);
        let header = rng.chance(1, 2);
        let rec = Recorder::free(None);
        rec.reset_tasks();
        rec.install();
        let res = std::panic::catch_unwind(|| run_oligo(&inp, &out, 1, false, WPath::Auto, threads, delim, header, Some(mem)));
        Recorder::uninstall();
        let lens: Vec<usize> = seqs.iter().map(|s| s.len()).collect();
        println!("{}", json!({"ev":"reset","who":"oligo","lens":lens,"mem":clip(mem),"threads":threads}));
        for e in rec.take_log().iter() {
            println!("{}", ev_json(e));
        }
        let mut evs = Vec::new();
        match res {
            Ok(Ok(())) => {
                let empty: Vec<bool> = seqs.iter().map(|q| q.is_empty()).collect();
                file_rows_raw_e(&out, n, delim, header, &mut evs, &empty)
            }
            Ok(Err(e)) => evs.push(json!({"ev":"error","what":e})),
            Err(_) => evs.push(json!({"ev":"crash","kind":"panic"})),
        }
        for e in evs {
            println!("{}", e);
        }
    }
    println!("{}", json!({"ev":"eof"}));
}

//! Runs of CovComputer (build_table + compute_coverages) under the recorder; projections for BatchTrace / CoverageTrace / idx.
use crate::batchrun::clip;
use crate::files::*;
use crate::gen::*;
use crate::mmaprun::ev_json;
use crate::sched::*;
use crate::util::*;
use coverage::CovComputer;
use serde_json::{json, Value};

pub struct CovCase {
    pub k: usize,
    pub bs: usize,
    pub bc: usize,
    pub norm: bool,
    pub threads: usize,
    pub mem: f64,
    pub delim: &'static str,
    pub recs: Vec<Vec<u8>>,
    pub crecs: Option<Vec<Vec<u8>>>,
    /// the counting input is written as FASTQ (the records as FASTA): the two files need not have the same format
    pub cfq: bool,
}

pub fn gen_case(rng: &mut Rng, i: usize, maxrecs: usize) -> CovCase {
    let k = if i % 10 == 7 { 3 } else if i % 2 == 0 { [1usize, 2, 3, 7, 15, 31][(i / 2) % 6] } else { 1 + rng.below(31) as usize };
    let n = if i % 6 == 5 { rng.below(3) as usize } else { rng.range(1, maxrecs as u64) as usize };
    let mk = |rng: &mut Rng, n: usize, i: usize| -> Vec<Vec<u8>> {
        (0..n)
            .map(|j| {
                // zero-length and all-ambiguous records included; repetitive content gives large multiplicities
                match (i + j) % 9 {
                    0 => Vec::new(),
                    1 => vec![b'N'; rng.range(1, 20) as usize],
                    2 | 3 => {
                        let len = rng.range(0, 120) as usize;
                        (0..len).map(|x| b"ACG"[x % (1 + (j % 3))]).collect()
                    }
                    _ => {
                        let len = rng.range(0, 120) as usize;
                        gen_seq(rng, len, false)
                    }
                }
            })
            .collect()
    };
    let mut recs = mk(rng, n, i);
    let big = i % 10 == 7;
    if big {
        // hundreds of short distinct records in one batch on many threads
        recs = (0..350).map(|j| { let len = 8 + (j % 23); gen_seq(rng, len, false) }).collect();
        // and one long record (thousands of windows)
        recs.push(gen_seq(rng, 6000, false));
    }
    if i % 11 == 3 {
        // only zero-length records: the final batch has total length 0
        recs = vec![Vec::new(); 1 + rng.below(3) as usize];
    }
    // crafted cases
    if i % 10 == 9 {
        // k = 17: canonical k-mers that differ only above bit 32 (A+S, C+S, G+S with S ending in A so that the forward
        // strand is the canonical one) with different multiplicities - a table keyed by a truncated code would merge them
        let s16: Vec<u8> = (0..15).map(|_| *rng.pick(b"ACGT")).chain(std::iter::once(b'A')).collect();
        let mk1 = |p: u8| -> Vec<u8> { std::iter::once(p).chain(s16.iter().copied()).collect() };
        let mut recs: Vec<Vec<u8>> = vec![mk1(b'A')];
        for _ in 0..7 {
            recs.push(mk1(b'C'));
        }
        for _ in 0..3 {
            recs.push(mk1(b'G'));
        }
        return CovCase { k: 17, bs: 2, bc: 5, norm: false, threads: 3, mem: 6.0, delim: " ", recs, crecs: None, cfq: false };
    }
    if i % 10 == 6 {
        // bin size x (bin count - 1) passes 2^64: every multiplicity is far below the bin size, so everything lands in bin 0
        let recs = vec![b"ACGTACGTTTGACCA".to_vec(), b"AAAAAAAAAA".to_vec(), b"ACGTN".to_vec()];
        return CovCase { k: 3, bs: 1 << 62, bc: *rng.pick(&[5usize, 16, 9]), norm: i % 20 == 6, threads: 2, mem: 6.0, delim: " ", recs, crecs: None, cfq: false };
    }
    if i % 10 == 8 {
        // multiplicities that are exact multiples of an awkward bin size (49, 98, 103, 107: 1/bs is not exact in binary)
        let bs = *rng.pick(&[49usize, 98, 103, 107]);
        let mult = bs * (1 + rng.below(3) as usize);
        let crecs = vec![vec![b'A'; mult + 2], b"ACGTTGCA".to_vec()];     // AAA occurs exactly `mult` times
        let recs = vec![b"AAAAA".to_vec(), b"ACGTT".to_vec(), b"TTTT".to_vec()];
        return CovCase { k: 3, bs, bc: 5, norm: i % 20 == 8, threads: 2, mem: 6.0, delim: ",", recs, crecs: Some(crecs), cfq: false };
    }
    let cn = rng.range(0, maxrecs as u64) as usize;
    let crecs = if i % 3 == 1 { Some(mk(rng, cn, i + 4)) } else { None };
    CovCase {
        k,
        // (bin sizes beyond 2^32: every multiplicity that occurs here is below them, so everything lands in bin 0)
        bs: *rng.pick(&[1usize, 2, 3, 5, 16, 7, 4_294_967_301, 1 << 40, 1 << 62]),      // (2^62 x (bin count - 1) passes 2^64)
        bc: *rng.pick(&[1usize, 2, 3, 5, 16]),
        norm: i % 2 == 0,
        threads: if big { 8 } else { 1 + rng.below(16) as usize },
        mem: if big { 6.0 } else { *rng.pick(&[0.5f64, 1.0, 6.0]) },
        delim: *rng.pick(&[" ", ",", "\t", "::", " | ", "\u{e9}", ", "]),
        recs,
        cfq: crecs.is_some() && i % 2 == 1,
        crecs,
    }
}

/// runs one case; returns (hook log, Ok(vectors path) or crash)
pub fn run_case(c: &CovCase, dir: &str) -> (Vec<Event>, Result<String, String>) {
    let inp = format!("{}/cov_in.fa", dir);
    let cinp = format!("{}/cov_cin.{}", dir, if c.cfq { "fq" } else { "fa" });
    write_fasta(&inp, &c.recs);
    if let Some(cr) = &c.crecs {
        if c.cfq {
            use std::io::Write;
            let mut f = std::io::BufWriter::new(std::fs::File::create(&cinp).unwrap());
            for (i, s) in cr.iter().enumerate() {
                // (bio's FASTQ reader refuses a record without bases: give those one ambiguous byte - it adds no k-mer)
                let s: Vec<u8> = if s.is_empty() { b"N".to_vec() } else { s.iter().map(|&b| if b == b'@' || b == b'+' { b'N' } else { b }).collect() };
                writeln!(f, "@c{}", i).unwrap();
                f.write_all(&s).unwrap();
                f.write_all(b"\n+\n").unwrap();
                f.write_all(&vec![b'I'; s.len()]).unwrap();
                f.write_all(b"\n").unwrap();
            }
        } else {
            write_fasta(&cinp, cr);
        }
    }
    let od = format!("{}/cov_out", dir);
    let _ = std::fs::remove_dir_all(&od);
    std::fs::create_dir_all(&od).unwrap();
    let rec = Recorder::free(None);
    rec.reset_tasks();
    rec.install();
    let res = std::panic::catch_unwind(|| {
        let mut cov = CovComputer::new(inp.clone(), od.clone(), c.k, c.bs, c.bc);
        cov.set_threads(c.threads);
        cov.set_norm(c.norm);
        cov.set_delim(c.delim.to_string());
        cov.set_max_memory(c.mem);
        if c.crecs.is_some() {
            cov.set_kmer_path(cinp.clone());
        }
        cov.build_table().unwrap();
        cov.compute_coverages();
    });
    Recorder::uninstall();
    let log = rec.take_log();
    match res {
        Ok(()) => (log, Ok(format!("{}/kmers.vectors", od))),
        Err(_) => (log, Err("panic".into())),
    }
}

/// trace coverage <seed> <runs> <dir> <maxrecs> <what>   what: batch | rows | idx
pub fn trace(seed: u64, runs: usize, dir: &str, maxrecs: usize, what: &str) {
    let mut rng = Rng::new(seed);
    for i in 0..runs {
        let c = gen_case(&mut rng, i, maxrecs);
        let (log, res) = run_case(&c, dir);
        // the coverage pass starts after the last merge event of build_table
        let cut = log.iter().rposition(|e| e.site.starts_with("ctr.")).map(|p| p + 1).unwrap_or(0);
        match what {
            "batch" => {
                let lens: Vec<usize> = c.recs.iter().map(|s| s.len()).collect();
                // flush threshold of compute_coverages: (mem as u64) << 30
                let thr = ((c.mem as u64) << 30) as usize;
                println!("{}", json!({"ev":"reset","who":"cov","lens":lens,"mem":clip(thr),"threads":c.threads}));
                for e in &log[cut..] {
                    println!("{}", ev_json(e));
                }
                match &res {
                    Ok(path) => {
                        let lines = lines_of(path);
                        let data = std::fs::read(path).unwrap_or_default();
                        println!("{}", json!({"ev":"file","size":data.len(),"nul":0,"lines":lines.len(),"hdr":0}));
                        // rows carry no ordinal here (CoverageTrace judges their content): rec = i
                        for i in 0..lines.len() {
                            println!("{}", json!({"ev":"row","i":i,"rec":i}));
                        }
                    }
                    Err(_) => println!("{}", json!({"ev":"crash","kind":"panic"})),
                }
            }
            "rows" => {
                let crecs: &Vec<Vec<u8>> = c.crecs.as_ref().unwrap_or(&c.recs);
                println!(
                    "{}",
                    json!({"ev":"creset","k":c.k,"bs":clip(c.bs),"bc":c.bc,"norm": if c.norm {1} else {0},"crecs":crecs,"recs":c.recs,"threads":c.threads,"mem":c.mem})
                );
                match &res {
                    Ok(path) => {
                        let lines = lines_of(path);
                        for (i, l) in lines.iter().enumerate() {
                            let (row, n) = sparse_row(l, c.delim, c.norm);
                            println!("{}", json!({"ev":"crow","i":i,"ncols":n,"row":row}));
                        }
                        println!("{}", json!({"ev":"crows","rows":lines.len(),"records":c.recs.len()}));
                    }
                    Err(_) => println!("{}", json!({"ev":"crash","kind":"panic"})),
                }
            }
            _ => {
                for e in &log {
                    match e.site {
                        "cov.idx" => println!("{}", json!({"ev":"idx","site":"cov.bins","a":[e.args[0], e.args[1]]})),
                        "ctr.counted" => println!("{}", json!({"ev":"idx","site":"ctr.partition","a":[e.args[2], e.args[3]]})),
                        _ => {}
                    }
                }
            }
        }
    }
    if what != "idx" {
        println!("{}", json!({"ev":"eof"}));
    }
}

/// trace covbig <seed> <dir>: records given by run lengths (multiplicities beyond 2^16 and 2^17, a 276 000-base record), the
/// file being its own counting input; rows judged from the runs alone (RunLength.tla)
pub fn big(seed: u64, dir: &str) {
    let mut rng = Rng::new(seed);
    // (run 4: the multiplicity of A..A is 17 000 001 = 3 x 5 666 667 - an odd number beyond 2^24, which single precision rounds
    // down to 17 000 000 - and the bin size is 5 666 667: bin 3 exactly)
    for (i, &(k, bs, bc)) in [(4usize, 1000usize, 32usize), (12, 3, 100_000), (31, 70_000, 4), (7, 1, 5), (5, 5_666_667, 6), (5, 9, 6)].iter().enumerate() {
        // the last two runs (raw and normalised): one record puts more than 2^24 windows into a single bin
        let plans: Vec<Vec<(u8, u64)>> = if i >= 4 {
            let a_run = if i == 4 { 16_999_913 } else { 17_000_000 + rng.below(1000) };      // + 46 + 46 windows in the second record
            vec![vec![(1, 40 + rng.below(9)), (0, a_run), (2, 60)], vec![(0, 50), (3, 50)]]
        } else {
            vec![
            vec![(0, 140_000 + rng.below(500)), (1, 66_000 + rng.below(500)), (4, 31 + rng.below(5)), (2, 31 + rng.below(50)), (3, 70_000 + rng.below(50))],
            vec![(3, 31 + rng.below(10)), (0, 31 + rng.below(10))],
            vec![(4, 40)],
            vec![(2, 68_000 + rng.below(10)), (1, 31)],
        ]
        };
        let recs: Vec<Vec<u8>> = plans
            .iter()
            .map(|p| {
                let mut s = Vec::new();
                for &(c, n) in p {
                    for _ in 0..n {
                        s.push(render_class(c, &mut rng, true));
                    }
                }
                s
            })
            .collect();
        let norm = i % 2 == 1;
        let c = CovCase { k, bs, bc, norm, threads: 1 + rng.below(8) as usize, mem: 6.0, delim: " ", recs, crecs: None, cfq: false };
        let (_, res) = run_case(&c, dir);
        let rle: Vec<Vec<Vec<u64>>> = plans.iter().map(|p| p.iter().map(|&(c, n)| vec![c as u64, n]).collect()).collect();
        match &res {
            Ok(path) => {
                let rows: Vec<Value> = lines_of(path)
                    .iter()
                    .map(|l| {
                        let (row, n) = sparse_row(l, " ", norm);
                        json!([n, row])
                    })
                    .collect();
                println!("{}", json!({"ev":"covbig","k":k,"bs":bs,"bc":bc,"norm": if norm {1} else {0},"recs":rle,"rows":rows}));
            }
            Err(_) => println!("{}", json!({"ev":"crash","kind":"panic"})),
        }
    }
    println!("{}", json!({"ev":"eof"}));
}

/// trace idx <seed> <runs> <dir>: index maxima of every unchecked access site (oligo, oligocgr, coverage, counter)
pub fn idx(seed: u64, runs: usize, dir: &str) {
    trace(seed, runs * 3, dir, 12, "idx");
    // the counter with small memory ceilings: more partitions than threads
    {
        let mut rng = Rng::new(seed ^ 0x77);
        for i in 0..runs {
            let seqs: Vec<Vec<u8>> = (0..8).map(|_| { let n = rng.range(20, 120) as usize; gen_seq(&mut rng, n, false) }).collect();
            let cfg = crate::ctrrun::CtrCfg { k: [5usize, 15, 31][i % 3], threads: 1 + (i % 3), limit: [0u64, 60, 300][i % 3], delete: true, acgt: false };
            for e in crate::ctrrun::free_run(&cfg, &seqs, dir, None) {
                if e["ev"] == "ctr.counted" {
                    println!("{}", json!({"ev":"idx","site":"ctr.partition","a":[e["a"][2], e["a"][3]]}));
                } else if e["ev"] == "crash" {
                    println!("{}", e);
                }
            }
        }
    }
    let mut rng = Rng::new(seed ^ 0x55);
    for i in 0..runs {
        for k in 1..=8usize {
            let seqs: Vec<Vec<u8>> = (0..6).map(|_| { let n = rng.range(0, 200) as usize; gen_seq(&mut rng, n, false) }).collect();
            let inp = format!("{}/idx_in.fa", dir);
            let out = format!("{}/idx_out.txt", dir);
            write_fasta(&inp, &seqs);
            let rec = Recorder::free(None);
            rec.install();
            let _ = std::panic::catch_unwind(|| {
                run_oligo(&inp, &out, k, i % 2 == 0, WPath::Auto, 4, " ", false, None).unwrap();
                if k <= 7 {
                    let mut c = composition::oligocgr::OligoCgrComputer::new(inp.clone(), out.clone(), k, 16);
                    c.set_threads(3);
                    c.vectorise().unwrap();
                }
            });
            Recorder::uninstall();
            for e in rec.take_log() {
                if e.site == "oligo.idx" || e.site == "oligocgr.idx" {
                    println!("{}", json!({"ev":"idx","site":e.site,"k":k,"a":[e.args[0], e.args[1], e.args[2], e.args[3]]}));
                }
            }
        }
    }
    println!("{}", json!({"ev":"eof"}));
}

//! Small shared helpers: deterministic RNG, class rendering, input enumeration, digit arrays.
use serde_json::{json, Value};

pub struct Rng(pub u64);
impl Rng {
    pub fn new(seed: u64) -> Self {
        Rng(seed.wrapping_mul(0x9E3779B97F4A7C15) ^ 0xD1B54A32D192ED03)
    }
    pub fn next(&mut self) -> u64 {
        // splitmix64
        self.0 = self.0.wrapping_add(0x9E3779B97F4A7C15);
        let mut z = self.0;
        z = (z ^ (z >> 30)).wrapping_mul(0xBF58476D1CE4E5B9);
        z = (z ^ (z >> 27)).wrapping_mul(0x94D049BB133111EB);
        z ^ (z >> 31)
    }
    pub fn below(&mut self, n: u64) -> u64 {
        if n == 0 {
            0
        } else {
            self.next() % n
        }
    }
    pub fn range(&mut self, lo: u64, hi: u64) -> u64 {
        lo + self.below(hi - lo + 1)
    }
    pub fn pick<'a, T>(&mut self, xs: &'a [T]) -> &'a T {
        &xs[self.below(xs.len() as u64) as usize]
    }
    pub fn chance(&mut self, num: u64, den: u64) -> bool {
        self.below(den) < num
    }
}

/// the specification's ClassOf (kept independent of the table in /repo on purpose:
/// it is only used to *generate* inputs, never to judge outputs)
pub fn class_of(b: u8) -> u8 {
    match b {
        b'A' | b'a' => 0,
        b'C' | b'c' => 1,
        b'G' | b'g' => 2,
        b'T' | b't' | b'U' | b'u' => 3,
        _ => 4,
    }
}

/// render one class as a byte; `rng` chooses among the representatives.
/// Ambiguous bytes never are 0x00..0x03 (outside every property) nor line terminators
/// when `textual` (so the result can sit in a FASTA line).
pub fn render_class(c: u8, rng: &mut Rng, textual: bool) -> u8 {
    match c {
        0 => *rng.pick(b"Aa"),
        1 => *rng.pick(b"Cc"),
        2 => *rng.pick(b"Gg"),
        3 => *rng.pick(b"TtUu"),
        _ => loop {
            let b = if textual {
                rng.range(33, 126) as u8
            } else {
                rng.range(4, 255) as u8
            };
            if class_of(b) == 4 && !(textual && (b == b'>' || b == b'@' || b == b'+')) {
                return b;
            }
        },
    }
}

pub fn render(cls: &[u8], rng: &mut Rng, textual: bool) -> Vec<u8> {
    cls.iter().map(|&c| render_class(c, rng, textual)).collect()
}

/// plain rendering ACGTN
pub fn render_plain(cls: &[u8]) -> Vec<u8> {
    cls.iter().map(|&c| b"ACGTN"[c as usize]).collect()
}

/// all strings over 0..sigma of length 0..=maxlen, by length then lexicographic:
/// exactly the order of the bijective base-sigma index idx' = idx*sigma + c + 1.
pub fn for_all_strings<F: FnMut(&[u8])>(sigma: u8, maxlen: usize, mut f: F) {
    for len in 0..=maxlen {
        let mut s = vec![0u8; len];
        loop {
            f(&s);
            // increment
            let mut i = len;
            loop {
                if i == 0 {
                    break;
                }
                i -= 1;
                if s[i] + 1 < sigma {
                    s[i] += 1;
                    for x in s.iter_mut().skip(i + 1) {
                        *x = 0;
                    }
                    i = usize::MAX;
                    break;
                }
            }
            if i != usize::MAX {
                break;
            }
        }
    }
}

/// u64 as 32 base-4 digits, most significant first
pub fn digits32(x: u64) -> Vec<u8> {
    (0..32).map(|i| ((x >> (2 * (31 - i))) & 3) as u8).collect()
}

pub fn jdigits32(x: u64) -> Value {
    json!(digits32(x))
}

/// dense table writer: 1024 entries per ndjson line
pub struct Dense {
    line: Vec<Value>,
    pub n: usize,
}
impl Dense {
    pub fn new() -> Self {
        Dense { line: Vec::with_capacity(1024), n: 0 }
    }
    pub fn push(&mut self, v: Value) {
        self.line.push(v);
        self.n += 1;
        if self.line.len() == 1024 {
            self.flush();
        }
    }
    pub fn flush(&mut self) {
        if !self.line.is_empty() {
            println!("{}", Value::Array(std::mem::take(&mut self.line)));
        }
    }
}

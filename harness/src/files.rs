//! Helpers around the file-based entry points: write inputs, run the real computers, decode output rows.
use composition::oligo::OligoComputer;
use std::io::Write;

pub fn write_fasta(path: &str, seqs: &[Vec<u8>]) {
    let mut f = std::io::BufWriter::new(std::fs::File::create(path).unwrap());
    for (i, s) in seqs.iter().enumerate() {
        writeln!(f, ">r{}", i).unwrap();
        f.write_all(s).unwrap();
        f.write_all(b"\n").unwrap();
    }
}

/// the same with given id numbers (">r<id>"; ids may repeat)
pub fn write_fasta_ids(path: &str, seqs: &[Vec<u8>], ids: &[usize]) {
    let mut f = std::io::BufWriter::new(std::fs::File::create(path).unwrap());
    for (i, s) in seqs.iter().enumerate() {
        writeln!(f, ">r{}", ids[i]).unwrap();
        f.write_all(s).unwrap();
        f.write_all(b"\n").unwrap();
    }
}

/// id numbers of the records of such a file (-1 where the name is not r<number>)
pub fn read_simple_fasta_ids(path: &str) -> Vec<i64> {
    let data = std::fs::read(path).unwrap();
    data.split(|&b| b == b'\n')
        .filter(|l| l.first() == Some(&b'>'))
        .map(|l| {
            let t = String::from_utf8_lossy(&l[1..]).to_string();
            let t = t.split_whitespace().next().unwrap_or("").to_string();
            t.strip_prefix('r').and_then(|x| x.parse::<i64>().ok()).unwrap_or(-1)
        })
        .collect()
}

#[derive(Clone, Copy, PartialEq)]
pub enum WPath {
    Auto,
    Mmap,
    Batch,
}

#[allow(clippy::too_many_arguments)]
pub fn run_oligo(inp: &str, out: &str, k: usize, norm: bool, path: WPath, threads: usize, delim: &str, header: bool, memory: Option<usize>) -> Result<(), String> {
    let mut c = OligoComputer::new(inp.to_string(), out.to_string(), k);
    c.set_threads(threads);
    c.set_norm(norm);
    c.set_delim(delim.to_string());
    c.set_header(header);
    if let Some(m) = memory {
        c.set_max_memory(m);
    }
    match path {
        WPath::Auto => c.vectorise(),
        WPath::Mmap => c.verif_vectorise_mmap(),
        WPath::Batch => c.verif_vectorise_batch(),
    }
}

/// the same through a computer object that has been used before with other settings (another delimiter, header,
/// normalisation and writer, into the same output path): nothing of the first use may survive in the second
pub fn run_oligo_reused(inp: &str, out: &str, k: usize, norm: bool, path: WPath, threads: usize, delim: &str, header: bool, memory: Option<usize>) -> Result<(), String> {
    let mut c = OligoComputer::new(inp.to_string(), out.to_string(), k);
    c.set_threads(1 + threads % 3);
    c.set_norm(!norm);
    c.set_delim(if delim == ";" { "#".to_string() } else { ";".to_string() });
    c.set_header(!header);
    // (the memory-mapped writer exists for normalised output only)
    match path {
        WPath::Auto => c.vectorise(),
        WPath::Batch if !norm => c.verif_vectorise_mmap(),
        _ => c.verif_vectorise_batch(),
    }?;
    c.set_threads(threads);
    c.set_norm(norm);
    c.set_delim(delim.to_string());
    c.set_header(header);
    if let Some(m) = memory {
        c.set_max_memory(m);
    }
    match path {
        WPath::Auto => c.vectorise(),
        WPath::Mmap => c.verif_vectorise_mmap(),
        WPath::Batch => c.verif_vectorise_batch(),
    }
}

/// "0.333333" -> 333333 ; "1.000000" -> 1000000 ; "3" -> 3 (raw count). None if not of that shape.
pub fn parse_val(tok: &str, norm: bool) -> Option<i64> {
    if norm {
        let (a, b) = tok.split_once('.')?;
        if b.len() != 6 || !a.bytes().all(|c| c.is_ascii_digit()) || !b.bytes().all(|c| c.is_ascii_digit()) || a.is_empty() {
            return None;
        }
        Some(a.parse::<i64>().ok()? * 1_000_000 + b.parse::<i64>().ok()?)
    } else {
        if tok.is_empty() || !tok.bytes().all(|c| c.is_ascii_digit()) {
            return None;
        }
        tok.parse::<i64>().ok()
    }
}

/// one output row -> sparse [col, val, col, val, ...]; a token that is not a number is shown as col, -1
pub fn sparse_row(line: &str, delim: &str, norm: bool) -> (Vec<i64>, usize) {
    let mut v = Vec::new();
    let mut n = 0usize;
    for (p, tok) in line.split(delim).enumerate() {
        n += 1;
        match parse_val(tok, norm) {
            Some(0) => {}
            Some(x) => {
                v.push(p as i64);
                v.push(x);
            }
            None => {
                v.push(p as i64);
                v.push(-1);
            }
        }
    }
    (v, n)
}

/// reads the simple FASTA files this framework writes itself (header line, then sequence lines until the next '>')
pub fn read_simple_fasta(path: &str) -> Vec<Vec<u8>> {
    let data = std::fs::read(path).unwrap();
    let mut out: Vec<Vec<u8>> = Vec::new();
    for line in data.split(|&b| b == b'\n') {
        let line = if line.last() == Some(&b'\r') { &line[..line.len() - 1] } else { line };
        if line.first() == Some(&b'>') {
            out.push(Vec::new());
        } else if let Some(cur) = out.last_mut() {
            cur.extend_from_slice(line);
        }
    }
    out
}

pub fn lines_of(path: &str) -> Vec<String> {
    let text = String::from_utf8_lossy(&std::fs::read(path).unwrap_or_default()).to_string();
    let mut v: Vec<String> = text.split('\n').map(|s| s.to_string()).collect();
    if v.last().map(|s| s.is_empty()).unwrap_or(false) {
        v.pop();
    }
    v
}

pub fn rc_bytes(s: &[u8]) -> Vec<u8> {
    s.iter()
        .rev()
        .map(|&b| match b {
            b'A' => b'T',
            b'C' => b'G',
            b'G' => b'C',
            b'T' | b'U' => b'A',
            b'a' => b't',
            b'c' => b'g',
            b'g' => b'c',
            b't' | b'u' => b'a',
            x => x,
        })
        .collect()
}

pub fn swapcase(s: &[u8]) -> Vec<u8> {
    s.iter()
        .map(|&b| if b.is_ascii_uppercase() { b.to_ascii_lowercase() } else if b.is_ascii_lowercase() { b.to_ascii_uppercase() } else { b })
        .collect()
}

pub fn swap_tu(s: &[u8]) -> Vec<u8> {
    s.iter()
        .map(|&b| match b {
            b'T' => b'U',
            b'U' => b'T',
            b't' => b'u',
            b'u' => b't',
            x => x,
        })
        .collect()
}

//! Runs of CountComputer under the recorder: free-running (B2) and TLC schedules through the controlled scheduler (B3).
use crate::files::*;
use crate::gen::*;
use crate::mmaprun::ev_json;
use crate::sched::*;
use crate::util::*;
use counter::CountComputer;
use serde_json::{json, Value};
use std::time::Duration;

pub fn mem_for_limit(limit: u64) -> f64 {
    // (1e9 * mem / 8) as u64 == limit
    (8.0 * limit as f64 + 4.0) / 1e9
}

pub fn list_temps(dir: &str) -> Vec<(u64, u64)> {
    let mut v = Vec::new();
    if let Ok(rd) = std::fs::read_dir(dir) {
        for e in rd.flatten() {
            let name = e.file_name().to_string_lossy().to_string();
            if let Some(rest) = name.strip_prefix("temp_kmers.part_") {
                if let Some((p, c)) = rest.split_once("_chunk_") {
                    if let (Ok(p), Ok(c)) = (p.parse::<u64>(), c.parse::<u64>()) {
                        v.push((p, c));
                    }
                }
            }
        }
    }
    v.sort();
    v
}

fn letter_digit(b: u8) -> Option<u64> {
    match b {
        b'A' => Some(0),
        b'C' => Some(1),
        b'G' => Some(2),
        b'T' => Some(3),
        _ => None,
    }
}

/// kmers.counts -> [[digits32, count], ...]; a line that does not parse becomes [[], -1]
pub fn decode_counts(path: &str, acgt: bool) -> Vec<Value> {
    decode_counts_k(path, acgt, None)
}

/// with `k`: a k-mer rendered as text must have exactly k letters
pub fn decode_counts_k(path: &str, acgt: bool, k: Option<usize>) -> Vec<Value> {
    let mut out = Vec::new();
    for line in lines_of(path) {
        let mut it = line.split('\t');
        let kmer = it.next().unwrap_or("");
        let cnt = it.next().and_then(|c| c.parse::<i64>().ok());
        let code: Option<u64> = if acgt {
            if k.map(|kk| kk != kmer.len()).unwrap_or(false) {
                None
            } else {
                kmer.bytes().try_fold(0u64, |acc, b| letter_digit(b).map(|d| acc * 4 + d))
            }
        } else {
            kmer.parse::<u64>().ok()
        };
        match (code, cnt) {
            (Some(x), Some(c)) if it.next().is_none() => out.push(json!([digits32(x), c])),
            _ => out.push(json!([[], -1])),
        }
    }
    out
}

pub struct CtrCfg {
    pub k: usize,
    pub threads: usize,
    pub limit: u64,
    pub delete: bool,
    pub acgt: bool,
}

fn reset_event(cfg: &CtrCfg, seqs: &[Vec<u8>], log: &[Event], mode: &str) -> Value {
    // nparts and the limit are parameters the run reports itself
    let nparts = log.iter().find(|e| e.site == "ctr.init").map(|e| e.args[0]).unwrap_or(0);
    let limit = log.iter().find(|e| e.site == "ctr.limit_obs").map(|e| e.args[1]).unwrap_or(cfg.limit);
    json!({"ev":"reset","mode":mode,"k":cfg.k,"recs":seqs,"nw":cfg.threads,"nparts":nparts,"limit":limit,
           "delete": if cfg.delete {1} else {0}})
}

fn finish_events(dir: &str, cfg: &CtrCfg, evs: &mut Vec<Value>) {
    let temps: Vec<Vec<u64>> = list_temps(dir).iter().map(|(p, c)| vec![*p, *c]).collect();
    evs.push(json!({"ev":"listing","temps":temps}));
    evs.push(json!({"ev":"counts","k":cfg.k,"lines":decode_counts_k(&format!("{}/kmers.counts", dir), cfg.acgt, Some(cfg.k))}));
}

fn fresh_dir(dir: &str) -> String {
    let d = format!("{}/ctr_out", dir);
    let _ = std::fs::remove_dir_all(&d);
    std::fs::create_dir_all(&d).unwrap();
    d
}

pub fn free_run(cfg: &CtrCfg, seqs: &[Vec<u8>], dir: &str, perturb: Option<u64>) -> Vec<Value> {
    let inp = format!("{}/ctr_in.fa", dir);
    write_fasta(&inp, seqs);
    let od = fresh_dir(dir);
    let rec = Recorder::free(perturb);
    rec.reset_tasks();
    rec.install();
    let res = std::panic::catch_unwind(|| {
        let mut c = CountComputer::new(inp.clone(), od.clone(), cfg.k);
        c.set_threads(cfg.threads);
        c.set_max_memory(mem_for_limit(cfg.limit));
        c.set_acgt_output(cfg.acgt);
        c.count();
        c.merge(cfg.delete);
    });
    Recorder::uninstall();
    let log = rec.take_log();
    let mut evs = vec![reset_event(cfg, seqs, &log, "free")];
    evs.extend(log.iter().map(ev_json));
    match res {
        Ok(()) => finish_events(&od, cfg, &mut evs),
        Err(_) => evs.push(json!({"ev":"crash","kind":"panic"})),
    }
    evs
}

/// trace counter <seed> <runs> <dir> <maxrecs>
pub fn free(seed: u64, runs: usize, dir: &str, maxrecs: usize) {
    let mut rng = Rng::new(seed);
    for i in 0..runs {
        // the sizes at the corners of the range, and - every other run - any size in it
        let k = if i % 2 == 0 { [1usize, 2, 5, 15, 16, 31][(i / 2) % 6] } else { 1 + rng.below(31) as usize };
        let n = if i % 7 == 0 { rng.below(3) as usize } else { rng.range(1, maxrecs as u64) as usize };
        let seqs: Vec<Vec<u8>> = (0..n)
            .map(|j| {
                let len = match j % 5 {
                    0 => rng.below(k as u64 + 2) as usize,
                    _ => rng.range(0, 90) as usize,
                };
                if i % 3 == 0 {
                    // highly repetitive: poly-A / short tandem repeat, every worker hits the same keys
                    let unit = [&b"A"[..], &b"AC"[..], &b"ACG"[..]][i % 3];
                    (0..len).map(|x| unit[x % unit.len()]).collect()
                } else {
                    gen_seq(&mut rng, len, false)
                }
            })
            .collect();
        // one crafted run: k = 17, canonical k-mers that differ only above bit 32 (a truncated key would merge them)
        let (k, seqs) = if i == 3 {
            let s16: Vec<u8> = (0..15).map(|_| *rng.pick(b"ACGT")).chain(std::iter::once(b'A')).collect();
            let mk1 = |p: u8| -> Vec<u8> { std::iter::once(p).chain(s16.iter().copied()).collect() };
            (17usize, vec![mk1(b'A'), mk1(b'C'), mk1(b'C'), mk1(b'G'), mk1(b'A'), mk1(b'C')])
        } else {
            (k, seqs)
        };
        let cfg = CtrCfg {
            k,
            threads: 1 + rng.below(16) as usize,
            limit: *rng.pick(&[0u64, 1, 50, 200, 1_000_000]),
            delete: i % 4 != 3,
            acgt: i % 5 == 4,
        };
        let perturb = if i % 2 == 0 { Some(rng.next()) } else { None };
        for e in free_run(&cfg, &seqs, dir, perturb) {
            println!("{}", e);
        }
    }
    println!("{}", json!({"ev":"eof"}));
}

const POINTS: [&str; 5] = ["ctr.worker_start", "ctr.before_limit_check", "ctr.before_take", "ctr.after_take", "ctr.before_add_total"];
const EXITS: [&str; 2] = ["ctr.worker_exit", "ctr.worker_exit_limit"];

fn want_site(act: &str) -> &'static str {
    match act {
        "c" => "ctr.before_limit_check",
        "t" => "ctr.before_take",
        "k" => "ctr.after_take",
        _ => "ctr.before_add_total",
    }
}

/// replay one schedule of worker steps [[w,"c"|"t"|"k"|"a"], ..., [0,"e"], ...] (merge steps are not controlled)
pub fn sched_run(cfg: &CtrCfg, seqs: &[Vec<u8>], dir: &str, schedule: &[(u64, String)]) -> Result<Vec<Value>, String> {
    let inp = format!("{}/ctr_in.fa", dir);
    write_fasta(&inp, seqs);
    let od = fresh_dir(dir);
    let rec = Recorder::controlled(&POINTS, &EXITS);
    rec.reset_tasks();
    rec.install();
    let (k, threads, mem, acgt, delete) = (cfg.k, cfg.threads, mem_for_limit(cfg.limit), cfg.acgt, cfg.delete);
    let (inp2, od2) = (inp.clone(), od.clone());
    let handle = std::thread::spawn(move || {
        let mut c = CountComputer::new(inp2, od2, k);
        c.set_threads(threads);
        c.set_max_memory(mem);
        c.set_acgt_output(acgt);
        c.count();
        c.merge(delete);
    });
    let to = Duration::from_secs(30);
    let mut fail: Option<String> = None;
    let steps: Vec<&(u64, String)> = schedule.iter().filter(|s| ["c", "t", "k", "a", "e"].contains(&s.1.as_str())).collect();
    let mut i = 0usize;
    'chunks: while i < steps.len() && fail.is_none() {
        // a chunk: all workers arrive at worker_start; start them up to their first limit check
        let parked = match rec.wait_quiescent(threads, to) {
            Some(p) => p,
            None => {
                fail = Some("workers did not arrive at worker_start".into());
                break;
            }
        };
        for (&tid, _) in parked.iter() {
            rec.grant(tid);
            if rec.wait_quiescent(threads, to).is_none() {
                fail = Some("worker did not reach its first limit check".into());
                break 'chunks;
            }
        }
        let mut assign: std::collections::HashMap<u64, u64> = std::collections::HashMap::new();
        while i < steps.len() {
            let (w, act) = steps[i];
            i += 1;
            if act == "e" {
                // every worker has exited; forget them, the next chunk (if any) brings new ones
                if rec.exited() != threads {
                    fail = Some(format!("chunk end in the schedule but {} of {} workers have exited", rec.exited(), threads));
                }
                rec.regate();
                break;
            }
            let parked = match rec.wait_quiescent(threads, to) {
                Some(p) => p,
                None => {
                    fail = Some("not quiescent".into());
                    break 'chunks;
                }
            };
            let tid = match assign.get(w) {
                Some(t) => *t,
                None => {
                    let used: std::collections::HashSet<u64> = assign.values().copied().collect();
                    match parked.keys().find(|t| !used.contains(t)) {
                        Some(&t) => {
                            assign.insert(*w, t);
                            t
                        }
                        None => {
                            fail = Some(format!("no free thread for model worker {}", w));
                            break 'chunks;
                        }
                    }
                }
            };
            if parked.get(&tid) != Some(&want_site(act)) {
                fail = Some(format!("worker {} is at {:?}, schedule wants {}", w, parked.get(&tid), want_site(act)));
                break 'chunks;
            }
            rec.grant(tid);
            if rec.wait_quiescent(threads, to).is_none() {
                fail = Some("VANISHED: granted worker neither reached a schedule point nor exited".into());
                break 'chunks;
            }
        }
    }
    rec.release_all();
    let res = handle.join();
    Recorder::uninstall();
    if let Some(f) = fail {
        if f.starts_with("VANISHED") {
            let log = rec.take_log();
            let mut evs = vec![reset_event(cfg, seqs, &log, "sched")];
            evs.extend(log.iter().map(ev_json));
            evs.push(json!({"ev":"crash","kind":"vanished","what":f}));
            return Ok(evs);
        }
        return Err(f);
    }
    let log = rec.take_log();
    let mut evs = vec![reset_event(cfg, seqs, &log, "sched")];
    evs.extend(log.iter().map(ev_json));
    match res {
        Ok(()) => finish_events(&od, cfg, &mut evs),
        Err(_) => evs.push(json!({"ev":"crash","kind":"panic"})),
    }
    Ok(evs)
}

/// replay counter <schedfile> <w> <limit> <dir> <seed> <stride>: the records are those of MCCounter!SchedCfg
/// (k = 1: canonical 1-mers A=0, C=1; record kmers <<0,1>>, <<1>>, <<1,1,2>> are not all 1-mers, so k = 2 codes are used:
///  AA=0, AC=1, AG=2 as canonical 2-mers) - see SCHED_RECS
pub fn replay(schedfile: &str, w: usize, limit: u64, dir: &str, seed: u64, stride: usize) {
    let text = std::fs::read_to_string(schedfile).unwrap();
    let cfg = CtrCfg { k: 2, threads: w, limit, delete: true, acgt: false };
    // canonical 2-mer codes 0,1,2 = AA, AC, AG; one record per model record, made of single 2-base windows
    // separated by N so that the record's k-mer list is exactly the model's: <<0,1>> -> "AANAC", <<1>> -> "AC", <<1,1,2>> -> "ACNACNAG"
    let seqs: Vec<Vec<u8>> = vec![b"AANAC".to_vec(), b"AC".to_vec(), b"ACNACNAG".to_vec()];
    let mut done = 0usize;
    let mut unrep = 0usize;
    for (i, line) in text.lines().enumerate() {
        if stride > 1 && (i + seed as usize) % stride != 0 {
            continue;
        }
        let v: Value = serde_json::from_str(line).unwrap();
        let schedule: Vec<(u64, String)> = v.as_array().unwrap().iter().map(|s| (s[0].as_u64().unwrap(), s[1].as_str().unwrap().to_string())).collect();
        match sched_run(&cfg, &seqs, dir, &schedule) {
            Ok(evs) => {
                let vanished = evs.last().map(|e| e["kind"] == "vanished").unwrap_or(false);
                for e in evs {
                    println!("{}", e);
                }
                done += 1;
                if vanished {
                    // one such run is enough to reject the trace; do not wait through many more time-outs
                    break;
                }
            }
            Err(why) => {
                unrep += 1;
                eprintln!("unreplayable schedule {}: {}", i, why);
                if unrep >= 25 {
                    break;
                }
            }
        }
    }
    println!("{}", json!({"ev":"eof"}));
    eprintln!("replayed={} unreplayable={}", done, unrep);
}

/// trace ctrstress <seed> <runs> <dir> <copies>: contention stress without hooks - many identical records, 16 threads;
/// only the final counts file is recorded (judged by FactsTrace: count = copies x occurrences)
pub fn stress(seed: u64, runs: usize, dir: &str, copies: usize) {
    let mut rng = Rng::new(seed);
    for i in 0..runs {
        let k = [2usize, 5, 15, 31][i % 4];
        let len = rng.range(k as u64, k as u64 + 40) as usize;
        let unit = [&b"A"[..], &b"AC"[..], &b"ACGT"[..], &b"AAC"[..]][i % 4];
        let one: Vec<u8> = (0..len).map(|x| unit[x % unit.len()]).collect();
        let seqs: Vec<Vec<u8>> = (0..copies).map(|_| one.clone()).collect();
        let inp = format!("{}/ctr_in.fa", dir);
        write_fasta(&inp, &seqs);
        let od = fresh_dir(dir);
        let limit = *rng.pick(&[100u64, 5_000, 1_000_000]);
        let res = std::panic::catch_unwind(|| {
            let mut c = CountComputer::new(inp.clone(), od.clone(), k);
            c.set_threads(16);
            c.set_max_memory(mem_for_limit(limit));
            c.count();
            c.merge(true);
        });
        match res {
            Ok(()) => println!(
                "{}",
                json!({"ev":"ctrstress","k":k,"bytes":one,"copies":copies,"limit":limit,
                       "lines":decode_counts(&format!("{}/kmers.counts", od), false),"temps":list_temps(&od).len()})
            ),
            Err(_) => println!("{}", json!({"ev":"crash","kind":"panic"})),
        }
    }
    println!("{}", json!({"ev":"eof"}));
}

/// trace ctrbig <seed> <dir>: records given by run lengths (one of more than 2^16 letters, one homopolymer k-mer occurring
/// more than 2^17 times), counted in one chunk and in several; judged from the runs alone (RunLength.tla)
pub fn big(seed: u64, dir: &str) {
    let mut rng = Rng::new(seed);
    for (i, k) in [5usize, 16, 31, 11].iter().enumerate() {
        let k = *k;
        let plans: Vec<Vec<(u8, u64)>> = vec![
            vec![(0, 140_000 + rng.below(500)), (1, 66_000 + rng.below(500)), (4, 31 + rng.below(5)), (2, 31 + rng.below(50)), (3, 70_000 + rng.below(50))],
            vec![(3, 31 + rng.below(10)), (0, 31 + rng.below(10))],
            vec![(2, 68_000 + rng.below(10))],
        ];
        let seqs: Vec<Vec<u8>> = plans
            .iter()
            .map(|p| {
                let mut s = Vec::new();
                for &(c, n) in p {
                    for _ in 0..n {
                        s.push(render_class(c, &mut rng, true));
                    }
                }
                s
            })
            .collect();
        let inp = format!("{}/ctr_in.fa", dir);
        write_fasta(&inp, &seqs);
        let od = fresh_dir(dir);
        // 0: the default ceiling (one chunk); otherwise ceilings giving a few chunks
        let limit = [0u64, 0, 150_000, 1_000_000][i];
        let threads = 1 + rng.below(8) as usize;
        let res = std::panic::catch_unwind(|| {
            let mut c = CountComputer::new(inp.clone(), od.clone(), k);
            c.set_threads(threads);
            if limit > 0 {
                c.set_max_memory(mem_for_limit(limit));
            }
            c.set_acgt_output(k == 31);      // (all-A / all-T k-mers rendered as text at the largest k)
            c.count();
            c.merge(true);
        });
        let recs: Vec<Vec<Vec<u64>>> = plans.iter().map(|p| p.iter().map(|&(c, n)| vec![c as u64, n]).collect()).collect();
        match res {
            Ok(()) => println!(
                "{}",
                json!({"ev":"ctrbig","k":k,"recs":recs,"limit":limit,"threads":threads,
                       "lines":decode_counts_k(&format!("{}/kmers.counts", od), k == 31, Some(k)),"temps":list_temps(&od).len()})
            ),
            Err(_) => println!("{}", json!({"ev":"crash","kind":"panic"})),
        }
    }
    println!("{}", json!({"ev":"eof"}));
}

/// ctrlib <in> <outdir> <k> <threads> <limit> <delete> <acgt>: CountComputer through the library with a tiny memory ceiling
/// (chunks / partitions the command line cannot reach); no hooks, for run histories (C17)
pub fn ctrlib(inp: &str, od: &str, k: usize, threads: usize, limit: u64, delete: bool, acgt: bool) {
    std::fs::create_dir_all(od).unwrap();
    let mut c = CountComputer::new(inp.to_string(), od.to_string(), k);
    c.set_threads(threads);
    c.set_max_memory(mem_for_limit(limit));
    c.set_acgt_output(acgt);
    c.count();
    c.merge(delete);
}

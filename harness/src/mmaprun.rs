//! Runs of the memory-mapped oligo writer under the recorder: free-running (B2) or replaying a TLC schedule (B3).
use crate::files::*;
use crate::sched::*;
use crate::util::*;
use serde_json::{json, Value};
use std::time::Duration;

pub struct MmCfg {
    pub n: usize,
    pub k: usize,
    pub delim: String,
    pub header: bool,
    pub threads: usize,
}

fn kcount(k: usize) -> usize {
    kmer::kmer::KmerGenerator::kmer_pos_maps(k).2
}

/// record j of n: (j + k) A's then C's up to length n + k: the first column (poly-A) of its row is (j+1)/(n+1)
pub fn coded_records(n: usize, k: usize, rng: &mut Rng) -> Vec<Vec<u8>> {
    (0..n)
        .map(|j| {
            let a = j + k;
            let m = n + k;
            let cls: Vec<u8> = (0..m).map(|i| if i < a { 0 } else { 1 }).collect();
            render(&cls, rng, true)
        })
        .collect()
}

/// first column "0.xxxxxx" -> record ordinal; -1 if it does not decode
pub fn decode_ordinal(line: &str, n: usize) -> i64 {
    if line.len() < 8 {
        return -1;
    }
    match parse_val(&line[0..8], true) {
        Some(v6) => {
            let num = v6 as u128 * (n as u128 + 1);
            let j1 = (num + 500_000) / 1_000_000;
            // must be that fraction to 6 decimals
            let back = (j1 * 1_000_000 + (n as u128 + 1) / 2) / (n as u128 + 1);
            if (back as i128 - v6 as i128).abs() <= 1 && j1 >= 1 {
                j1 as i64 - 1
            } else {
                -1
            }
        }
        None => -1,
    }
}

pub fn ev_json(e: &Event) -> Value {
    json!({"ev": e.site, "t": e.t, "a": e.args})
}

pub fn file_events(out: &str, cfg: &MmCfg, evs: &mut Vec<Value>) {
    let data = std::fs::read(out).unwrap_or_default();
    let nul = data.iter().filter(|&&b| b == 0).count();
    let text = String::from_utf8_lossy(&data).to_string();
    let mut lines: Vec<&str> = text.split('\n').collect();
    if lines.last() == Some(&"") {
        lines.pop();
    }
    evs.push(json!({"ev":"file","size":data.len(),"nul":nul,"lines":lines.len()}));
    let skip = if cfg.header { 1 } else { 0 };
    for (i, l) in lines.iter().skip(skip).enumerate() {
        evs.push(json!({"ev":"row","i":i,"rec":decode_ordinal(l, cfg.n)}));
    }
}

fn reset_event(cfg: &MmCfg, mode: &str) -> Value {
    json!({"ev":"reset","mode":mode,"n":cfg.n,"kc":kcount(cfg.k),"dl":cfg.delim.len(),"hdr": if cfg.header {1} else {0},"ksz":cfg.k,"nw":cfg.threads,
           "norows": if mode == "free-any" {1} else {0}})
}

/// free-running mmap run; returns the events (reset, hook events, decoded file)
pub fn free_run(cfg: &MmCfg, dir: &str, rng: &mut Rng, perturb: Option<u64>, any: bool) -> Vec<Value> {
    let inp = format!("{}/mm_in.fa", dir);
    let out = format!("{}/mm_out.txt", dir);
    if any {
        // arbitrary records: empty, shorter than k, ambiguous bytes (no ordinal coding, so no row events; the write log,
        // file size and NUL count are what is judged)
        let seqs: Vec<Vec<u8>> = (0..cfg.n)
            .map(|j| {
                let len = match j % 4 {
                    1 => 0,
                    2 => rng.below(cfg.k as u64 + 1) as usize,
                    _ => rng.range(0, 80) as usize,
                };
                crate::gen::gen_seq(rng, len, false)
            })
            .collect();
        write_fasta(&inp, &seqs);
    } else {
        write_fasta(&inp, &coded_records(cfg.n, cfg.k, rng));
    }
    let _ = std::fs::remove_file(&out);
    let rec = Recorder::free(perturb);
    rec.reset_tasks();
    rec.install();
    let res = std::panic::catch_unwind(|| run_oligo(&inp, &out, cfg.k, true, WPath::Mmap, cfg.threads, &cfg.delim, cfg.header, None));
    Recorder::uninstall();
    let mut evs = vec![reset_event(cfg, if any { "free-any" } else { "free" })];
    evs.extend(rec.take_log().iter().map(ev_json));
    match res {
        Ok(Ok(())) => {
            file_events(&out, cfg, &mut evs);
            if any {
                evs.retain(|e| e["ev"] != "row");
            }
        }
        Ok(Err(e)) => evs.push(json!({"ev":"error","what":e})),
        Err(_) => evs.push(json!({"ev":"crash","kind":"panic"})),
    }
    evs
}

/// replay one schedule [[w,"t"|"w"],...] through the controlled scheduler. Err(reason) if the code cannot follow it.
pub fn sched_run(cfg: &MmCfg, dir: &str, rng: &mut Rng, schedule: &[(u64, String)]) -> Result<Vec<Value>, String> {
    let inp = format!("{}/mm_in.fa", dir);
    let out = format!("{}/mm_out.txt", dir);
    write_fasta(&inp, &coded_records(cfg.n, cfg.k, rng));
    let _ = std::fs::remove_file(&out);
    let rec = Recorder::controlled(&["oligo.worker_start", "oligo.before_take", "oligo.before_write"], &["oligo.worker_exit"]);
    rec.reset_tasks();
    rec.install();
    let (k, threads, delim, header) = (cfg.k, cfg.threads, cfg.delim.clone(), cfg.header);
    let (inp2, out2) = (inp.clone(), out.clone());
    let handle = std::thread::spawn(move || run_oligo(&inp2, &out2, k, true, WPath::Mmap, threads, &delim, header, None));
    let to = Duration::from_secs(30);
    let mut fail: Option<String> = None;
    // all workers arrive at worker_start; start them one by one (in arrival order) up to their first before_take
    match rec.wait_quiescent(threads, to) {
        None => fail = Some("workers did not all arrive at worker_start".into()),
        Some(parked) => {
            for (&tid, _) in parked.iter() {
                rec.grant(tid);
                if rec.wait_quiescent(threads, to).is_none() {
                    fail = Some("worker did not reach before_take".into());
                    break;
                }
            }
        }
    }
    // model worker -> real thread, in order of first appearance in the schedule / ascending thread id
    let mut assign: std::collections::HashMap<u64, u64> = std::collections::HashMap::new();
    if fail.is_none() {
        for (w, act) in schedule {
            let parked = match rec.wait_quiescent(threads, to) {
                Some(p) => p,
                None => {
                    fail = Some("not quiescent".into());
                    break;
                }
            };
            let tid = match assign.get(w) {
                Some(t) => *t,
                None => {
                    let used: std::collections::HashSet<u64> = assign.values().copied().collect();
                    match parked.keys().find(|t| !used.contains(t)) {
                        Some(&t) => {
                            assign.insert(*w, t);
                            t
                        }
                        None => {
                            fail = Some(format!("no free thread for model worker {}", w));
                            break;
                        }
                    }
                }
            };
            let want = if act == "t" { "oligo.before_take" } else { "oligo.before_write" };
            if parked.get(&tid) != Some(&want) {
                fail = Some(format!("worker {} is at {:?}, schedule wants {}", w, parked.get(&tid), want));
                break;
            }
            rec.grant(tid);
            if rec.wait_quiescent(threads, to).is_none() {
                fail = Some("VANISHED: granted worker neither reached a schedule point nor exited".into());
                break;
            }
        }
    }
    rec.release_all();
    let res = handle.join();
    Recorder::uninstall();
    if let Some(f) = fail {
        if f.starts_with("VANISHED") {
            // a worker left the loop by a path the hooks (and the specification) do not know: that is data
            let mut evs = vec![reset_event(cfg, "sched")];
            evs.extend(rec.take_log().iter().map(ev_json));
            evs.push(json!({"ev":"crash","kind":"vanished","what":f}));
            return Ok(evs);
        }
        return Err(f);
    }
    let mut evs = vec![reset_event(cfg, "sched")];
    evs.extend(rec.take_log().iter().map(ev_json));
    match res {
        Ok(Ok(())) => file_events(&out, cfg, &mut evs),
        Ok(Err(e)) => evs.push(json!({"ev":"error","what":e})),
        Err(_) => evs.push(json!({"ev":"crash","kind":"panic"})),
    }
    Ok(evs)
}

/// replay oligommap <schedfile> <n> <w> <dir> <seed> <stride>: schedfile holds one JSON schedule per line
pub fn replay(schedfile: &str, n: usize, w: usize, dir: &str, seed: u64, stride: usize) {
    let mut rng = Rng::new(seed);
    let text = std::fs::read_to_string(schedfile).unwrap();
    let cfg = MmCfg { n, k: 1, delim: " ".into(), header: false, threads: w };
    let mut done = 0usize;
    let mut unreplayable = 0usize;
    for (i, line) in text.lines().enumerate() {
        if stride > 1 && (i + seed as usize) % stride != 0 {
            continue;
        }
        let v: Value = serde_json::from_str(line).unwrap();
        let schedule: Vec<(u64, String)> = v.as_array().unwrap().iter().map(|s| (s[0].as_u64().unwrap(), s[1].as_str().unwrap().to_string())).collect();
        match sched_run(&cfg, dir, &mut rng, &schedule) {
            Ok(evs) => {
                let vanished = evs.last().map(|e| e["kind"] == "vanished").unwrap_or(false);
                for e in evs {
                    println!("{}", e);
                }
                done += 1;
                if vanished {
                    // one such run is enough to reject the trace; do not wait through many more time-outs
                    break;
                }
            }
            Err(why) => {
                unreplayable += 1;
                eprintln!("unreplayable schedule {}: {}", i, why);
                if unreplayable >= 25 {
                    break;
                }
            }
        }
    }
    println!("{}", json!({"ev":"eof"}));
    eprintln!("replayed={} unreplayable={}", done, unreplayable);
}

/// trace oligommap <seed> <runs> <dir>: free-running runs over threads 1..16, k 1..3, delimiters of length 0..3, header on/off
pub fn free(seed: u64, runs: usize, dir: &str, maxn: usize) {
    let mut rng = Rng::new(seed);
    for i in 0..runs {
        let n = match i % 5 {
            0 => rng.below(4) as usize,
            _ => rng.range(1, maxn as u64) as usize,
        };
        let cfg = MmCfg {
            n,
            k: 1 + (i % 5),
            // any string is a delimiter for the library: empty, ASCII of 1..3 bytes, non-ASCII (bytes != chars), and strings made of
            // the characters values are printed with (a row ends in a value, not in a delimiter)
            delim: (*rng.pick(&["", " ", ",", "\t", "::", " | ", "\u{b7}", "\u{2192}", "a\u{e9}", "0", "00", "50", "1", ".", "0."])).to_string(),
            header: rng.chance(1, 2),
            threads: 1 + rng.below(16) as usize,
        };
        let perturb = if i % 2 == 0 { Some(rng.next()) } else { None };
        for e in free_run(&cfg, dir, &mut rng, perturb, i % 4 == 3) {
            println!("{}", e);
        }
    }
    println!("{}", json!({"ev":"eof"}));
}

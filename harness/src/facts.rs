//! Per-record facts (oligo rows, CGR points) recorded from the library / from output files, as events for FactsTrace.
use crate::cgrdec::*;
use crate::files::*;
use crate::gen::*;
use crate::util::*;
use composition::cgr::CgrComputer;
use composition::oligocgr::OligoCgrComputer;
use kmer::kmer::KmerGenerator;
use serde_json::json;

pub fn orec_event(k: usize, norm: bool, bytes: &[u8], line: Option<&String>, delim: &str, same: bool, src: &str) {
    let (row, n) = match line {
        Some(l) => sparse_row(l, delim, norm),
        None => (vec![-1, -1], 0),
    };
    println!(
        "{}",
        json!({"ev":"orec","src":src,"k":k,"norm": if norm {1} else {0},"bytes":bytes,"ncols":n,"row":row,"same": if same {1} else {0}})
    );
}

/// records with their invariance variants: s, RC(s), swapcase(s), T<->U(s)  (same = true for the variants)
pub fn with_variants(rng: &mut Rng, n: usize, maxlen: usize) -> Vec<(Vec<u8>, bool)> {
    let mut v = Vec::new();
    for i in 0..n {
        let len = match i % 7 {
            0 => rng.below(12) as usize,
            _ => rng.range(0, maxlen as u64) as usize,
        };
        let s = gen_seq(rng, len, false);
        v.push((s.clone(), false));
        match i % 4 {
            0 => v.push((rc_bytes(&s), true)),
            1 => v.push((swapcase(&s), true)),
            2 => v.push((swap_tu(&s), true)),
            _ => {
                v.push((rc_bytes(&s), true));
                v.push((swap_tu(&swapcase(&s)), true));
            }
        }
    }
    v
}

/// records whose A..A column is a ratio c/t sitting just beside a 6-decimal rounding boundary (the remainder of c*10^6/t is
/// within 1/t of one half, but not a tie): a quotient computed with less than double precision prints a different last digit.
/// A^(c+k-1) C^(t-c) has t windows of which exactly c are A..A (its own canonical form, T..T does not occur).
pub fn ratio_records(rng: &mut Rng, k: usize, want: usize) -> Vec<Vec<u8>> {
    let mut pairs: Vec<(u64, u64)> = Vec::new();
    for t in 40..700u64 {
        for c in 30..t {
            let r = (c * 1_000_000) % t;
            let d = if 2 * r > t { 2 * r - t } else { t - 2 * r };
            if d > 0 && d <= 2 {
                pairs.push((c, t));
            }
        }
    }
    let mut out = Vec::new();
    for _ in 0..want.min(pairs.len()) {
        let (c, t) = pairs[rng.below(pairs.len() as u64) as usize];
        let mut s = vec![b'A'; c as usize + k - 1];
        s.extend(std::iter::repeat(b'C').take((t - c) as usize));
        if rng.below(2) == 0 {
            s = rc_bytes(&s);
        }
        out.push(s);
    }
    out
}

/// trace oligo <seed> <n> <maxlen> <dir>: library file API, k = 1..8, raw (batch writer) and normalised (mmap writer)
pub fn oligo(seed: u64, n: usize, maxlen: usize, dir: &str) {
    let mut rng = Rng::new(seed);
    for k in 1..=8usize {
        let mut recs = with_variants(&mut rng, n, maxlen);
        // one very long record for small k (tens of thousands of windows: tiny normalised values, large counts)
        if k <= 3 {
            let big: Vec<u8> = (0..40_000).map(|x| if x % 9973 == 5 { b'N' } else { *rng.pick(b"ACGTacgtu") }).collect();
            recs.push((big, false));
        }
        for s in ratio_records(&mut rng, k, 12) {
            recs.push((s, false));
        }
        // exact repeats of earlier records (adjacent and far apart) and several records too short for any k-mer:
        // anything that caches or shares per-sequence work between workers must still give every record its own row
        let base = recs.len();
        for j in 0..base.min(12) {
            let src = recs[rng.below(base as u64) as usize].0.clone();
            recs.push((src.clone(), false));
            if j % 3 == 0 {
                recs.push((src, true));
            }
            if j % 4 == 1 {
                recs.push(((0..rng.below(k as u64) as usize).map(|_| b'A').collect(), false));
            }
        }
        let seqs: Vec<Vec<u8>> = recs.iter().map(|r| r.0.clone()).collect();
        let inp = format!("{}/tr_oligo_{}.fa", dir, k);
        write_fasta(&inp, &seqs);
        for norm in [false, true] {
            let out = format!("{}/tr_oligo_{}_{}.out", dir, k, norm);
            let threads = 2 + rng.below(14) as usize;
            let delim = *rng.pick(&[" ", ",", "\t"]);
            if k % 2 == 0 {
                run_oligo_reused(&inp, &out, k, norm, WPath::Auto, threads, delim, false, None).unwrap();
            } else {
                run_oligo(&inp, &out, k, norm, WPath::Auto, threads, delim, false, None).unwrap();
            }
            let lines = lines_of(&out);
            for (i, (s, same)) in recs.iter().enumerate() {
                orec_event(k, norm, s, lines.get(i), delim, *same, "lib");
            }
            if lines.len() != recs.len() {
                println!("{}", json!({"ev":"rowcount","rows":lines.len(),"records":recs.len()}));
            }
            let _ = std::fs::remove_file(&out);
        }
        let _ = std::fs::remove_file(&inp);
    }
    println!("{}", json!({"ev":"eof"}));
}

/// trace oligobig <seed> <scale> <dir>: records given by run lengths (millions of bases; scale 1 = a record with more than
/// 2^24 windows), judged from the runs alone (RunLength.tla). One raw run through the batch writer, one normalised
/// run through the memory-mapped writer, per k.
pub fn oligo_big(seed: u64, scale: u64, dir: &str) {
    let mut rng = Rng::new(seed);
    let m = 1_000_000u64;
    let plans: Vec<Vec<(u8, u64)>> = vec![
        // more than 2^24 = 16 777 216 windows in one record; one canonical k-mer more than 2^24 times
        // (A..A and T..T are one canonical k-mer: 12 + 5.5 million occurrences, more than 2^24)
        vec![(0, 12 * m * scale + rng.below(1000)), (1, m + rng.below(1000)), (4, 8 + rng.below(5)), (3, 5 * m + 500_000 + rng.below(1000)), (2, 70_000 + rng.below(1000)), (0, 8)],
        // a little more than 2^16 letters, and a second record after it
        vec![(3, 40_000 + rng.below(100)), (1, 25_600 + rng.below(100)), (2, 9 + rng.below(30))],
        vec![(1, 8), (0, 8 + rng.below(4)), (4, 8), (2, 11)],
    ];
    // scale 0: twenty records of exactly 65 536 bytes each on disk (">r<i>\n" + bases + "\n"), so that every header starts at a
    // multiple of 64 KiB and the 17th at 1 MiB: whatever power-of-two block size a reader or a sizing pass uses, record
    // boundaries coincide with block boundaries
    let plans: Vec<Vec<(u8, u64)>> = if scale > 0 {
        plans
    } else {
        (0..20u64)
            .map(|i| {
                let header = format!(">r{}\n", i).len() as u64;
                let mut left = 65_536 - header - 1;
                let mut p = Vec::new();
                while left > 0 {
                    let n = if left < 4000 { left } else { rng.range(8, 30_000).min(left - 8) };
                    let c = if rng.below(9) == 0 { 4 } else { rng.below(4) as u8 };
                    p.push((c, n));
                    left -= n;
                }
                p
            })
            .collect()
    };
    let ks: Vec<usize> = if scale > 0 { vec![1, 2, 3, 5, 8] } else { vec![2, 5] };
    let seqs: Vec<Vec<u8>> = plans
        .iter()
        .map(|p| {
            let mut s = Vec::new();
            for &(c, n) in p {
                for _ in 0..n {
                    s.push(render_class(c, &mut rng, true));
                }
            }
            s
        })
        .collect();
    let inp = format!("{}/tr_obig.fa", dir);
    write_fasta(&inp, &seqs);
    for k in ks {
        for norm in [false, true] {
            let out = format!("{}/tr_obig_{}_{}.out", dir, k, norm);
            let path = if norm { WPath::Mmap } else { WPath::Batch };
            run_oligo(&inp, &out, k, norm, path, 1 + rng.below(4) as usize, " ", false, None).unwrap();
            let lines = lines_of(&out);
            for (i, p) in plans.iter().enumerate() {
                let (row, n) = match lines.get(i) {
                    Some(l) => sparse_row(l, " ", norm),
                    None => (vec![-1, -1], 0),
                };
                let rle: Vec<Vec<u64>> = p.iter().map(|&(c, n)| vec![c as u64, n]).collect();
                println!("{}", json!({"ev":"obig","src":"lib","k":k,"norm": if norm {1} else {0},"rle":rle,"ncols":n,"row":row}));
            }
            if lines.len() != plans.len() {
                println!("{}", json!({"ev":"rowcount","rows":lines.len(),"records":plans.len()}));
            }
            let _ = std::fs::remove_file(&out);
        }
    }
    // the same records through the k-mer CGR writer (its frequencies are the oligo values of the columns)
    if scale > 0 {
        for (k, norm) in [(2usize, true), (4, false)] {
            let out = format!("{}/tr_obig_cgr_{}.out", dir, k);
            let mut c = OligoCgrComputer::new(inp.clone(), out.clone(), k, 16);
            c.set_threads(2);
            c.set_norm(norm);
            c.vectorise().unwrap();
            let lines = lines_of(&out);
            for (i, p) in plans.iter().enumerate() {
                let (row, n) = match lines.get(i).and_then(|l| parse_points(l, 3)) {
                    Some(pts) => {
                        let toks: Vec<String> = pts.iter().map(|v| if norm { format!("{:.6}", v[2]) } else { format!("{}", v[2]) }).collect();
                        sparse_row(&toks.join(" "), " ", norm)
                    }
                    None => (vec![-1, -1], 0),
                };
                let rle: Vec<Vec<u64>> = p.iter().map(|&(c, n)| vec![c as u64, n]).collect();
                println!("{}", json!({"ev":"obig","src":"lib-cgr","k":k,"norm": if norm {1} else {0},"rle":rle,"ncols":n,"row":row}));
            }
            let _ = std::fs::remove_file(&out);
        }
    }
    let _ = std::fs::remove_file(&inp);
    println!("{}", json!({"ev":"eof"}));
}

/// decode oligo <fasta> <out> <k> <norm> <delim> <header> <src>: rows of an output file (e.g. written by the CLI) as orec events
pub fn decode_oligo(fasta: &str, out: &str, k: usize, norm: bool, delim: &str, header: bool, src: &str) {
    let seqs = read_simple_fasta(fasta);
    let mut lines = lines_of(out);
    if header && !lines.is_empty() {
        lines.remove(0);
    }
    for (i, s) in seqs.iter().enumerate() {
        orec_event(k, norm, s, lines.get(i), delim, false, src);
    }
    if lines.len() != seqs.len() {
        println!("{}", json!({"ev":"rowcount","rows":lines.len(),"records":seqs.len()}));
    }
}

// ------------------------------------------------------------------ CGR
pub fn cgr_event(bytes: &[u8], size: u64, res: Option<&Vec<(f64, f64)>>, src: &str) {
    match res {
        None => println!("{}", json!({"ev":"cgr","src":src,"s":size,"bytes":bytes,"err":1,"npts":0,"nexact":0,"pts":[],"tops":[]})),
        Some(pts) => {
            let n = pts.len();
            // points are exact doubles while size * numerator fits 53 bits: bitlen(size) + (i + 1) <= 53
            let nexact = n.min(29).min(52 - (64 - size.leading_zeros()) as usize);
            let mut flat: Vec<i64> = Vec::new();
            for (i, (x, y)) in pts.iter().take(nexact).enumerate() {
                let b = (i + 2) as u32;
                flat.push(numerator(*x, size, b).map(|v| v as i64).unwrap_or(-1));
                flat.push(numerator(*y, size, b).map(|v| v as i64).unwrap_or(-1));
            }
            // beyond the exact phase: the top 20 bits of each coordinate, as one integer each
            let num = |bits: Vec<u8>| bits.iter().fold(0u64, |a, &b| a * 2 + b as u64);
            let mut tops: Vec<Vec<u64>> = Vec::new();
            for (x, y) in pts.iter().skip(nexact) {
                tops.push(vec![num(top_bits(*x, size, 20)), num(top_bits(*y, size, 20))]);
            }
            // the rule itself, in the arithmetic it is stated in: every point is the midpoint (in double precision) of the
            // previous point and the corner of its base; recur = number of points for which that is not so
            let half = size as f64 / 2.0;
            let mut prev = (half, half);
            let mut recur = 0usize;
            for (i, p) in pts.iter().enumerate() {
                let c = class_of(bytes[i]);
                let sf = size as f64;
                let corner = match c { 0 => (0.0, 0.0), 1 => (0.0, sf), 2 => (sf, sf), _ => (sf, 0.0) };
                let q = ((corner.0 + prev.0) / 2.0, (corner.1 + prev.1) / 2.0);
                if c > 3 || q.0.to_bits() != p.0.to_bits() || q.1.to_bits() != p.1.to_bits() {
                    recur += 1;
                }
                prev = *p;
            }
            println!("{}", json!({"ev":"cgr","src":src,"s":size,"bytes":bytes,"err":0,"npts":n,"nexact":nexact,"pts":flat,"tops":tops,"recur":recur}));
        }
    }
}

fn gen_cgr_seq(rng: &mut Rng, i: usize, maxlen: usize) -> Vec<u8> {
    if i == 13 && maxlen >= 1000 {
        // one sequence far longer than any plausible internal block size
        // (140 000 bases; around every multiple of 2^16 a stretch of 100-200 bases from two letters only - A/C keep x at
        // its lower end, A/T keep y there: the point then carries bits of bases far behind it)
        let mut cls: Vec<u8> = (0..140_000).map(|_| rng.below(4) as u8).collect();
        for (b, pair) in [(65_536usize, [0u8, 1u8]), (131_072, [0, 3])] {
            let from = b - 60 - rng.below(60) as usize;
            let to = b + 40 + rng.below(60) as usize;
            for x in from..to {
                cls[x] = pair[rng.below(2) as usize];
            }
        }
        return render(&cls, rng, true);
    }
    let len = match i % 9 {
        0 => rng.below(4) as usize,
        1 => rng.range(25, 35) as usize,
        2 => rng.range(maxlen as u64 / 2, maxlen as u64) as usize,
        _ => rng.range(0, 60.min(maxlen) as u64) as usize,
    };
    let cls: Vec<u8> = (0..len).map(|_| rng.below(4) as u8).collect();
    let mut s = render(&cls, rng, true);
    // one in four gets a non-nucleotide byte somewhere (first, last, middle)
    if i % 4 == 3 && len > 0 {
        let p = match rng.below(3) {
            0 => 0,
            1 => len - 1,
            _ => rng.below(len as u64) as usize,
        };
        s[p] = render_class(4, rng, true);
    }
    s
}

// (the last two have more significant bits than a single-precision float holds)
const SIZES: [u64; 8] = [1, 2, 3, 8, 1000, 1 << 20, 16_777_217, 1_000_000_007];

/// trace cgr <seed> <n> <maxlen>: CgrComputer::vectorise_one through the library
pub fn cgr(seed: u64, n: usize, maxlen: usize) {
    let mut rng = Rng::new(seed);
    for i in 0..n {
        let size = SIZES[i % SIZES.len()];
        let c = CgrComputer::new("x.fa".into(), "x.out".into(), size as usize);
        let s = gen_cgr_seq(&mut rng, i, maxlen);
        match c.verif_vectorise_one(&s) {
            Ok(p) => cgr_event(&s, size, Some(&p), "lib"),
            Err(_) => cgr_event(&s, size, None, "lib"),
        }
    }
    println!("{}", json!({"ev":"eof"}));
}

fn parse_points(line: &str, arity: usize) -> Option<Vec<Vec<f64>>> {
    let mut out = Vec::new();
    if line.is_empty() {
        return Some(out);
    }
    for tok in line.split(' ') {
        let t = tok.strip_prefix('(')?.strip_suffix(')')?;
        let v: Vec<f64> = t.split(',').map(|x| x.parse::<f64>()).collect::<Result<_, _>>().ok()?;
        if v.len() != arity {
            return None;
        }
        out.push(v);
    }
    Some(out)
}

/// decode cgr <fasta> <out> <S> <src>: rows "(x,y) (x,y) ..." of a whole-sequence CGR output file as cgr events
pub fn decode_cgr(fasta: &str, out: &str, size: u64, src: &str) {
    let seqs = read_simple_fasta(fasta);
    let lines = lines_of(out);
    for (i, s) in seqs.iter().enumerate() {
        match lines.get(i).and_then(|l| parse_points(l, 2)) {
            Some(p) => {
                let pts: Vec<(f64, f64)> = p.iter().map(|v| (v[0], v[1])).collect();
                cgr_event(s, size, Some(&pts), src);
            }
            None => println!("{}", json!({"ev":"badrow","i":i,"src":src})),
        }
    }
    if lines.len() != seqs.len() {
        println!("{}", json!({"ev":"rowcount","rows":lines.len(),"records":seqs.len()}));
    }
}

/// trace cgrfile <seed> <n> <maxlen> <dir>: CgrComputer::vectorise() on clean records, threads and batch limits varied
pub fn cgr_file(seed: u64, n: usize, maxlen: usize, dir: &str) {
    let mut rng = Rng::new(seed);
    for (j, &size) in SIZES.iter().enumerate() {
        // one of the files is large: hundreds of records converted in parallel within a single batch
        let n = if j == 2 { 400 } else { n };
        let maxlen = if j == 2 { 12 } else { maxlen };
        let seqs: Vec<Vec<u8>> = (0..n)
            .map(|i| {
                let len = if i % 5 == 0 { rng.below(3) as usize } else { rng.range(0, maxlen as u64) as usize };
                let cls: Vec<u8> = (0..len).map(|_| rng.below(4) as u8).collect();
                render(&cls, &mut rng, true)
            })
            .collect();
        let inp = format!("{}/tr_cgr_{}.fa", dir, j);
        let out = format!("{}/tr_cgr_{}.out", dir, j);
        write_fasta(&inp, &seqs);
        let mut c = CgrComputer::new(inp.clone(), out.clone(), size as usize);
        c.set_threads(if j == 2 { 8 } else { 1 + rng.below(16) as usize });
        c.verif_set_max_memory(if j == 2 { 1 << 32 } else { *rng.pick(&[1usize, 64, 1 << 32]) });
        c.vectorise().unwrap();
        decode_cgr(&inp, &out, size, "lib-file");
        let _ = std::fs::remove_file(&inp);
        let _ = std::fs::remove_file(&out);
    }
    println!("{}", json!({"ev":"eof"}));
}

// ------------------------------------------------------------------ k-mer CGR
fn ocols_event(k: usize, size: u64, xy: &[(f64, f64)], src: &str) {
    let mut flat: Vec<i64> = Vec::new();
    for (x, y) in xy {
        let b = (k + 1) as u32;
        flat.push(numerator(*x, size, b).map(|v| v as i64).unwrap_or(-1));
        flat.push(numerator(*y, size, b).map(|v| v as i64).unwrap_or(-1));
    }
    println!("{}", json!({"ev":"ocols","src":src,"k":k,"s":size,"pts":flat}));
}

/// rows "(x,y,f) ..." of a k-mer CGR output file: ocols for the first row (and for any row whose coordinates
/// are not bit-identical to the first row's), one orec per row for the frequencies
pub fn decode_ocgr(fasta: &str, out: &str, k: usize, size: u64, norm: bool, src: &str) {
    let seqs = read_simple_fasta(fasta);
    let lines = lines_of(out);
    let kcount = KmerGenerator::kmer_pos_maps(k).2;
    let mut first: Option<Vec<(u64, u64)>> = None;
    for (i, s) in seqs.iter().enumerate() {
        match lines.get(i).and_then(|l| parse_points(l, 3)) {
            Some(p) => {
                let xy: Vec<(f64, f64)> = p.iter().map(|v| (v[0], v[1])).collect();
                let bits: Vec<(u64, u64)> = xy.iter().map(|v| (v.0.to_bits(), v.1.to_bits())).collect();
                if first.as_ref() != Some(&bits) {
                    ocols_event(k, size, &xy, src);
                    if first.is_none() {
                        first = Some(bits);
                    }
                }
                // frequencies, printed the way the oligo writer prints them, then decoded like an oligo row
                let toks: Vec<String> = p.iter().map(|v| if norm { format!("{:.6}", v[2]) } else { format!("{}", v[2]) }).collect();
                let line = toks.join(" ");
                let (row, n) = sparse_row(&line, " ", norm);
                let n = if p.len() == kcount { n } else { p.len() };
                println!(
                    "{}",
                    json!({"ev":"orec","src":src,"k":k,"norm": if norm {1} else {0},"bytes":s,"ncols":n,"row":row,"same":0})
                );
            }
            None => println!("{}", json!({"ev":"badrow","i":i,"src":src})),
        }
    }
    if lines.len() != seqs.len() {
        println!("{}", json!({"ev":"rowcount","rows":lines.len(),"records":seqs.len()}));
    }
}

/// trace ocgr <seed> <n> <maxlen> <dir>: OligoCgrComputer::vectorise() for k = 1..7, several sizes, raw and normalised
pub fn ocgr(seed: u64, n: usize, maxlen: usize, dir: &str) {
    let mut rng = Rng::new(seed);
    for k in 1..=8usize {
        for norm in [true, false] {
            let size = *rng.pick(&[1u64, (k * k) as u64, 16, 1 << 20, 1 << 60, 3 << 50]);      // (size x 2^(k+1) passes 2^64 for the largest)
            // k = 2 raw: a large single batch on many threads
            let bigrun = k == 2 && !norm;
            let n = if bigrun { 400 } else { n };
            let maxlen = if bigrun { 20 } else { maxlen };
            let mut seqs: Vec<Vec<u8>> = (0..n)
                .map(|i| {
                    let len = if i % 6 == 0 { rng.below(k as u64 + 2) as usize } else { rng.range(0, maxlen as u64) as usize };
                    gen_seq(&mut rng, len, false)
                })
                .collect();
            if norm {
                seqs.extend(ratio_records(&mut rng, k, 8));
            }
            let inp = format!("{}/tr_ocgr_{}.fa", dir, k);
            let out = format!("{}/tr_ocgr_{}.out", dir, k);
            write_fasta(&inp, &seqs);
            let mut c = OligoCgrComputer::new(inp.clone(), out.clone(), k, size as usize);
            c.set_threads(if bigrun { 8 } else { 1 + rng.below(16) as usize });
            c.set_norm(norm);
            c.verif_set_max_memory(if bigrun { 1 << 32 } else { *rng.pick(&[1usize, 200, 1 << 32]) });
            c.vectorise().unwrap();
            decode_ocgr(&inp, &out, k, size, norm, "lib-file");
            let _ = std::fs::remove_file(&inp);
            let _ = std::fs::remove_file(&out);
        }
    }
    println!("{}", json!({"ev":"eof"}));
}

/// gen fasta <seed> <n> <maxlen> <path> [clean]: a FASTA file of generated records (with invariance variants unless clean)
pub fn gen_fasta(seed: u64, n: usize, maxlen: usize, path: &str, clean: bool, ratio_k: usize) {
    let mut rng = Rng::new(seed);
    let mut seqs: Vec<Vec<u8>> = if clean {
        (0..n).map(|i| gen_cgr_seq(&mut rng, i * 4, maxlen)).collect()
    } else {
        with_variants(&mut rng, n, maxlen).into_iter().map(|r| r.0).collect()
    };
    if ratio_k > 0 {
        seqs.extend(ratio_records(&mut rng, ratio_k, 12));
    }
    write_fasta(path, &seqs);
}

/// trace bits <fasta> <size> <kmax>: bit patterns of the Rust core's results on the records of a FASTA file (sequence bytes
/// are decoded as latin-1 and re-encoded as UTF-8, which is what the Python driver hands to the binding): whole-sequence CGR
/// and oligo vectors before rounding. FNV over the little-endian f64 bytes would do; sha256 is not available here, so the
/// raw bit patterns themselves are printed (hex) and hashed by the check script.
pub fn bits(fasta: &str, size: u64, kmax: usize) {
    let seqs: Vec<Vec<u8>> = read_simple_fasta(fasta)
        .iter()
        .map(|s| s.iter().map(|&b| b as char).collect::<String>().into_bytes())
        .collect();
    let c = CgrComputer::new("x.fa".into(), "x.out".into(), size as usize);
    let hex = |v: &[f64]| -> String { v.iter().map(|x| format!("{:016x}", x.to_bits())).collect::<Vec<_>>().join("") };
    for (i, s) in seqs.iter().enumerate() {
        let d = match c.verif_vectorise_one(s) {
            Ok(p) => hex(&p.iter().flat_map(|q| [q.0, q.1]).collect::<Vec<f64>>()),
            Err(_) => "error".to_string(),
        };
        println!("{}", json!({"ev":"bits","what":"cgr","i":i,"size":size,"bits":d}));
    }
    for k in 1..=kmax {
        for norm in [false, true] {
            let mut oc = composition::oligo::OligoComputer::new("x.fa".into(), "x.out".into(), k);
            oc.set_norm(norm);
            for (i, s) in seqs.iter().enumerate() {
                println!("{}", json!({"ev":"bits","what":"oligo","k":k,"norm": if norm {1} else {0},"i":i,"bits":hex(&oc.verif_vectorise_one(s))}));
            }
        }
    }
}

//! B1: dump the real code's complete output for an enumerated input set, in the order TLC explores it.
use crate::util::*;
use kmer::kmer::KmerGenerator;
use kmer::kmer_minimisers::KmerMinimiserGenerator;
use kmer::minimiser::MinimiserGenerator;
use serde_json::json;

/// table kmer <k> <maxlen> <seed>
pub fn kmer(k: usize, maxlen: usize, seed: u64) {
    let mut rng = Rng::new(seed);
    let mut t = Dense::new();
    for_all_strings(5, maxlen, |cls| {
        let bytes = render(cls, &mut rng, false);
        let mut flat: Vec<u64> = Vec::new();
        for (f, r) in KmerGenerator::new(&bytes, k) {
            flat.push(f);
            flat.push(r);
        }
        t.push(json!(flat));
    });
    t.flush();
}

fn small(x: u64) -> i64 {
    if x == u64::MAX {
        -1
    } else if x > i32::MAX as u64 {
        -2
    } else {
        x as i64
    }
}

fn alpha(a: &str) -> Vec<u8> {
    a.bytes().map(|b| b - b'0').collect()
}

/// table minimiser <w> <m> <maxlen> <seed> <alpha>   (alpha: class digits, e.g. 01234)
pub fn minimiser(w: usize, m: usize, maxlen: usize, seed: u64, a: &str, kvariant: bool) {
    let al = alpha(a);
    let mut rng = Rng::new(seed);
    let mut t = Dense::new();
    for_all_strings(al.len() as u8, maxlen, |ix| {
        let cls: Vec<u8> = ix.iter().map(|&i| al[i as usize]).collect();
        let bytes = render(&cls, &mut rng, false);
        let mut flat: Vec<i64> = Vec::new();
        if kvariant {
            for (v, s, e, ks) in KmerMinimiserGenerator::new(&bytes, w, m) {
                flat.push(small(v));
                flat.push(s as i64);
                flat.push(e as i64);
                flat.push(ks.len() as i64);
                for k in ks {
                    flat.push(small(k));
                }
            }
        } else {
            for (v, s, e) in MinimiserGenerator::new(&bytes, w, m) {
                flat.push(small(v));
                flat.push(s as i64);
                flat.push(e as i64);
            }
        }
        t.push(json!(flat));
    });
    t.flush();
}

/// table revcomp <kmax>: for every k <= kmax and every x < 4^k: [rev_comp(x,k), letters of numeric_to_kmer(x,k)...]
pub fn revcomp(kmax: usize) {
    for k in 1..=kmax {
        let mut t = Dense::new();
        for x in 0..4u64.pow(k as u32) {
            let mut e: Vec<i64> = vec![small(KmerGenerator::rev_comp(x, k))];
            for b in kmer::numeric_to_kmer(x, k).bytes() {
                e.push(b as i64);
            }
            t.push(json!(e));
        }
        t.flush();
    }
}

/// table posmap <kmax>: line k = {pos: min_mer_pos_map, at: pos_min_mer_map as a list, count}
pub fn posmap(kmax: usize) {
    for k in 1..=kmax {
        let (pos, at, count) = KmerGenerator::kmer_pos_maps(k);
        // the inverse map as a list indexed by rank; a missing rank is shown as -1
        let mut keys: Vec<usize> = at.keys().copied().collect();
        keys.sort();
        let n = keys.last().map(|x| x + 1).unwrap_or(0).max(at.len());
        let atl: Vec<i64> = (0..n).map(|p| at.get(&p).map(|&x| small(x)).unwrap_or(-1)).collect();
        println!("{}", json!({"pos": pos, "at": atl, "count": count}));
    }
}

//! B1: dump the real code's complete output for an enumerated input set, in the order TLC explores it.
use crate::util::*;
use kmer::kmer::KmerGenerator;
use serde_json::json;

/// table kmer <k> <maxlen> <seed>
pub fn kmer(k: usize, maxlen: usize, seed: u64) {
    let mut rng = Rng::new(seed);
    let mut t = Dense::new();
    for_all_strings(5, maxlen, |cls| {
        let bytes = render(cls, &mut rng, false);
        let mut flat: Vec<u64> = Vec::new();
        for (f, r) in KmerGenerator::new(&bytes, k) {
            flat.push(f);
            flat.push(r);
        }
        t.push(json!(flat));
    });
    t.flush();
}

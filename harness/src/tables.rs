//! B1: dump the real code's complete output for an enumerated input set, in the order TLC explores it.
use crate::cgrdec::*;
use crate::files::*;
use crate::util::*;
use kmer::kmer::KmerGenerator;
use kmer::kmer_minimisers::KmerMinimiserGenerator;
use kmer::minimiser::MinimiserGenerator;
use serde_json::json;

/// table kmer <k> <maxlen> <seed>
pub fn kmer(k: usize, maxlen: usize, seed: u64) {
    let mut rng = Rng::new(seed);
    let mut t = Dense::new();
    for_all_strings(5, maxlen, |cls| {
        let bytes = render(cls, &mut rng, false);
        let mut flat: Vec<u64> = Vec::new();
        for (f, r) in KmerGenerator::new(&bytes, k) {
            flat.push(f);
            flat.push(r);
        }
        t.push(json!(flat));
    });
    t.flush();
}

fn small(x: u64) -> i64 {
    if x == u64::MAX {
        -1
    } else if x > i32::MAX as u64 {
        -2
    } else {
        x as i64
    }
}

fn alpha(a: &str) -> Vec<u8> {
    a.bytes().map(|b| b - b'0').collect()
}

/// table minimiser <w> <m> <maxlen> <seed> <alpha>   (alpha: class digits, e.g. 01234)
pub fn minimiser(w: usize, m: usize, maxlen: usize, seed: u64, a: &str, kvariant: bool) {
    let al = alpha(a);
    let mut rng = Rng::new(seed);
    let mut t = Dense::new();
    for_all_strings(al.len() as u8, maxlen, |ix| {
        let cls: Vec<u8> = ix.iter().map(|&i| al[i as usize]).collect();
        let bytes = render(&cls, &mut rng, false);
        let mut flat: Vec<i64> = Vec::new();
        if kvariant {
            for (v, s, e, ks) in KmerMinimiserGenerator::new(&bytes, w, m) {
                flat.push(small(v));
                flat.push(s as i64);
                flat.push(e as i64);
                flat.push(ks.len() as i64);
                for k in ks {
                    flat.push(small(k));
                }
            }
        } else {
            for (v, s, e) in MinimiserGenerator::new(&bytes, w, m) {
                flat.push(small(v));
                flat.push(s as i64);
                flat.push(e as i64);
            }
        }
        t.push(json!(flat));
    });
    t.flush();
}

/// table revcomp <kmax>: for every k <= kmax and every x < 4^k: [rev_comp(x,k), letters of numeric_to_kmer(x,k)...]
pub fn revcomp(kmax: usize) {
    for k in 1..=kmax {
        let mut t = Dense::new();
        for x in 0..4u64.pow(k as u32) {
            let mut e: Vec<i64> = vec![small(KmerGenerator::rev_comp(x, k))];
            for b in kmer::numeric_to_kmer(x, k).bytes() {
                e.push(b as i64);
            }
            t.push(json!(e));
        }
        t.flush();
    }
}

/// table posmap <kmax>: line k = {pos: min_mer_pos_map, at: pos_min_mer_map as a list, count}
pub fn posmap(kmax: usize) {
    for k in 1..=kmax {
        let (pos, at, count) = KmerGenerator::kmer_pos_maps(k);
        // the inverse map as a list indexed by rank; a missing rank is shown as -1
        let mut keys: Vec<usize> = at.keys().copied().collect();
        keys.sort();
        let n = keys.last().map(|x| x + 1).unwrap_or(0).max(at.len());
        let atl: Vec<i64> = (0..n).map(|p| at.get(&p).map(|&x| small(x)).unwrap_or(-1)).collect();
        println!("{}", json!({"pos": pos, "at": atl, "count": count}));
    }
}

/// table oligo <k> <maxlen> <seed> <mode> <dir>: every enumerated input as one FASTA record, through the file API.
/// mode: raw (batch writer, counts) | normmmap | normbatch. Entry = sparse row; wrong column count => [-1, ncols].
pub fn oligo(k: usize, maxlen: usize, seed: u64, mode: &str, dir: &str) {
    let mut rng = Rng::new(seed);
    let mut seqs: Vec<Vec<u8>> = Vec::new();
    for_all_strings(5, maxlen, |cls| seqs.push(render(cls, &mut rng, true)));
    let inp = format!("{}/all_{}_{}.fa", dir, k, mode);
    let out = format!("{}/all_{}_{}.out", dir, k, mode);
    write_fasta(&inp, &seqs);
    let (norm, path) = match mode {
        "raw" => (false, WPath::Batch),
        "normmmap" => (true, WPath::Mmap),
        _ => (true, WPath::Batch),
    };
    // a small batch limit so that the batch writer flushes many times
    run_oligo(&inp, &out, k, norm, path, 4, " ", false, Some(997)).unwrap();
    let text = std::fs::read_to_string(&out).unwrap_or_default();
    let kcount = KmerGenerator::kmer_pos_maps(k).2;
    let mut t = Dense::new();
    let mut lines = text.split('\n').collect::<Vec<_>>();
    if lines.last() == Some(&"") {
        lines.pop();
    }
    for i in 0..seqs.len() {
        match lines.get(i) {
            Some(l) => {
                let (row, n) = sparse_row(l, " ", norm);
                if n == kcount {
                    t.push(json!(row));
                } else {
                    t.push(json!([-1, n]));
                }
            }
            None => t.push(json!([-2, lines.len()])),
        }
    }
    t.flush();
    let _ = std::fs::remove_file(&inp);
    let _ = std::fs::remove_file(&out);
}

/// table cgr <maxlen> <seed> <S>: CgrComputer::vectorise_one on every enumerated input
pub fn cgr(maxlen: usize, seed: u64, size: u64) {
    let c = composition::cgr::CgrComputer::new("x.fa".to_string(), "x.out".to_string(), size as usize);
    let mut rng = Rng::new(seed);
    let mut t = Dense::new();
    for_all_strings(5, maxlen, |cls| {
        let bytes = render(cls, &mut rng, false);
        match c.verif_vectorise_one(&bytes) {
            Err(_) => t.push(json!([-1])),
            Ok(pts) => {
                let mut flat: Vec<i64> = Vec::new();
                let mut bad: Option<usize> = None;
                for (i, (x, y)) in pts.iter().enumerate() {
                    let b = (i + 2) as u32;
                    match (numerator(*x, size, b), numerator(*y, size, b)) {
                        (Some(nx), Some(ny)) => {
                            flat.push(nx as i64);
                            flat.push(ny as i64);
                        }
                        _ => {
                            bad = Some(i + 1);
                            break;
                        }
                    }
                }
                match bad {
                    Some(i) => t.push(json!([-2, i])),
                    None => t.push(json!(flat)),
                }
            }
        }
    });
    t.flush();
}

/// table ocgr <k> <maxlen> <seed> <mode> <dir>: every enumerated input as one FASTA record through OligoCgrComputer::vectorise();
/// mode raw|norm. Entry = sparse frequency row; [-3, i] if row i's coordinates differ bitwise from row 0's.
pub fn ocgr(k: usize, maxlen: usize, seed: u64, mode: &str, dir: &str) {
    let mut rng = Rng::new(seed);
    let mut seqs: Vec<Vec<u8>> = Vec::new();
    for_all_strings(5, maxlen, |cls| seqs.push(render(cls, &mut rng, true)));
    let inp = format!("{}/allo_{}_{}.fa", dir, k, mode);
    let out = format!("{}/allo_{}_{}.out", dir, k, mode);
    write_fasta(&inp, &seqs);
    let norm = mode == "norm";
    let mut c = composition::oligocgr::OligoCgrComputer::new(inp.clone(), out.clone(), k, 16);
    c.set_threads(4);
    c.set_norm(norm);
    c.verif_set_max_memory(1009);
    c.vectorise().unwrap();
    let lines = lines_of(&out);
    let kcount = KmerGenerator::kmer_pos_maps(k).2;
    let mut t = Dense::new();
    let mut first: Option<Vec<(String, String)>> = None;
    for i in 0..seqs.len() {
        let Some(l) = lines.get(i) else {
            t.push(json!([-2, lines.len()]));
            continue;
        };
        let mut xy: Vec<(String, String)> = Vec::new();
        let mut toks: Vec<String> = Vec::new();
        let mut ok = true;
        for tok in l.split(' ') {
            let inner = tok.trim_start_matches('(').trim_end_matches(')');
            let parts: Vec<&str> = inner.split(',').collect();
            if parts.len() != 3 {
                ok = false;
                break;
            }
            xy.push((parts[0].to_string(), parts[1].to_string()));
            let f: f64 = parts[2].parse().unwrap_or(-1.0);
            toks.push(if norm { format!("{:.6}", f) } else { format!("{}", f) });
        }
        if !ok || xy.len() != kcount {
            t.push(json!([-1, xy.len()]));
            continue;
        }
        if first.is_none() {
            first = Some(xy.clone());
        }
        if first.as_ref() != Some(&xy) {
            t.push(json!([-3, i]));
            continue;
        }
        let (row, _) = sparse_row(&toks.join(" "), " ", norm);
        t.push(json!(row));
    }
    t.flush();
    let _ = std::fs::remove_file(&inp);
    let _ = std::fs::remove_file(&out);
}

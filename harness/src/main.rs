mod batchrun;
mod cgrdec;
mod containers;
mod covrun;
mod ctrrun;
mod paths;
mod readrun;
mod facts;
mod files;
mod gen;
mod librun;
mod manyrun;
mod minrun;
mod mmaprun;
mod sched;
mod tables;
mod traces;
mod util;

fn arg<T: std::str::FromStr>(a: &[String], i: usize) -> T
where
    T::Err: std::fmt::Debug,
{
    a.get(i).unwrap_or_else(|| panic!("missing argument {}", i)).parse().unwrap()
}

fn main() {
    // a panic of the code under test is data: one short line on stderr, no backtrace
    std::panic::set_hook(Box::new(|info| {
        let loc = info.location().map(|l| format!("{}:{}", l.file(), l.line())).unwrap_or_default();
        eprintln!("panic under test at {}", loc);
    }));
    let a: Vec<String> = std::env::args().skip(1).collect();
    let cmd: Vec<&str> = a.iter().map(|s| s.as_str()).collect();
    match cmd.as_slice() {
        ["table", "kmer", ..] => tables::kmer(arg(&a, 2), arg(&a, 3), arg(&a, 4)),
        ["table", "minimiser", ..] => tables::minimiser(arg(&a, 2), arg(&a, 3), arg(&a, 4), arg(&a, 5), &a[6], false),
        ["table", "kmermin", ..] => tables::minimiser(arg(&a, 2), arg(&a, 3), arg(&a, 4), arg(&a, 5), &a[6], true),
        ["trace", "minsame", ..] => traces::min_same(arg(&a, 2), arg(&a, 3)),
        ["trace", "minwide", ..] => traces::min_wide(arg(&a, 2)),
        ["trace", "minmid", ..] => traces::min_mid(arg(&a, 2), a[3] == "1"),
        ["trace", "gaps", ..] => traces::gaps(arg(&a, 2), &a[3]),
        ["trace", "iterapi", ..] => traces::iterapi(arg(&a, 2), arg(&a, 3)),
        ["trace", "kmerlong", ..] => traces::kmer_long(arg(&a, 2), arg(&a, 3), a[4] == "1"),
        ["trace", "minlong", ..] => traces::min_long(arg(&a, 2), arg(&a, 3), a[4] == "1", a[5] == "1"),
        ["trace", "kmer", ..] => traces::kmer(arg(&a, 2), arg(&a, 3), arg(&a, 4)),
        ["trace", "minimiser", ..] => traces::minimiser(arg(&a, 2), arg(&a, 3), arg(&a, 4), false),
        ["trace", "kmermin", ..] => traces::minimiser(arg(&a, 2), arg(&a, 3), arg(&a, 4), true),
        ["table", "oligo", ..] => tables::oligo(arg(&a, 2), arg(&a, 3), arg(&a, 4), &a[5], &a[6]),
        ["table", "cgr", ..] => tables::cgr(arg(&a, 2), arg(&a, 3), arg(&a, 4)),
        ["trace", "oligobig", ..] => facts::oligo_big(arg(&a, 2), arg(&a, 3), &a[4]),
        ["trace", "oligo", ..] => facts::oligo(arg(&a, 2), arg(&a, 3), arg(&a, 4), &a[5]),
        ["trace", "cgr", ..] => facts::cgr(arg(&a, 2), arg(&a, 3), arg(&a, 4)),
        ["trace", "cgrfile", ..] => facts::cgr_file(arg(&a, 2), arg(&a, 3), arg(&a, 4), &a[5]),
        ["trace", "ocgr", ..] => facts::ocgr(arg(&a, 2), arg(&a, 3), arg(&a, 4), &a[5]),
        ["decode", "oligo", ..] => facts::decode_oligo(&a[2], &a[3], arg(&a, 4), a[5] == "1", &a[6], a[7] == "1", &a[8]),
        ["decode", "cgr", ..] => facts::decode_cgr(&a[2], &a[3], arg(&a, 4), &a[5]),
        ["decode", "ocgr", ..] => facts::decode_ocgr(&a[2], &a[3], arg(&a, 4), arg(&a, 5), a[6] == "1", &a[7]),
        ["gen", "fasta", ..] => facts::gen_fasta(arg(&a, 2), arg(&a, 3), arg(&a, 4), &a[5], a.get(6).map(|x| x == "clean").unwrap_or(false),
            a.get(6).and_then(|x| x.strip_prefix("ratio")).and_then(|x| x.parse().ok()).unwrap_or(0),
        ),
        ["table", "ocgr", ..] => tables::ocgr(arg(&a, 2), arg(&a, 3), arg(&a, 4), &a[5], &a[6]),
        ["replay", "oligommap", ..] => mmaprun::replay(&a[2], arg(&a, 3), arg(&a, 4), &a[5], arg(&a, 6), arg(&a, 7)),
        ["trace", "oligommap", ..] => mmaprun::free(arg(&a, 2), arg(&a, 3), &a[4], arg(&a, 5)),
        ["trace", "oligobatch", ..] => batchrun::oligo_batch(arg(&a, 2), arg(&a, 3), &a[4], arg(&a, 5)),
        ["trace", "oligopaths", ..] => paths::oligo_paths(arg(&a, 2), arg(&a, 3), &a[4], arg(&a, 5)),
        ["trace", "counter", ..] => ctrrun::free(arg(&a, 2), arg(&a, 3), &a[4], arg(&a, 5)),
        ["trace", "ctrstress", ..] => ctrrun::stress(arg(&a, 2), arg(&a, 3), &a[4], arg(&a, 5)),
        ["trace", "many", ..] => manyrun::many(arg(&a, 2), &a[3], arg(&a, 4), a.get(5).map(|x| x.as_str()).unwrap_or("all")),
        ["trace", "covbig", ..] => covrun::big(arg(&a, 2), &a[3]),
        ["trace", "ctrbig", ..] => ctrrun::big(arg(&a, 2), &a[3]),
        ["trace", "coverage", ..] => covrun::trace(arg(&a, 2), arg(&a, 3), &a[4], arg(&a, 5), &a[6]),
        ["trace", "idx", ..] => covrun::idx(arg(&a, 2), arg(&a, 3), &a[4]),
        ["trace", "minw0big", ..] => minrun::w0big(arg(&a, 2), &a[3]),
        ["trace", "minout", ..] => minrun::free(arg(&a, 2), arg(&a, 3), &a[4], arg(&a, 5)),
        ["replay", "minout", ..] => minrun::replay(&a[2], arg(&a, 3), &a[4], arg(&a, 5), arg(&a, 6), a[7] == "m2s"),
        ["decode", "minout", ..] => minrun::decode(&a[2], &a[3], a[4] == "m2s", arg(&a, 5), arg(&a, 6)),
        ["replay", "reader", ..] => readrun::replay(&a[2], &a[3], arg(&a, 4), arg(&a, 5)),
        ["trace", "reader", ..] => readrun::free(arg(&a, 2), arg(&a, 3), &a[4], arg(&a, 5)),
        ["lib", ..] => librun::run(&a[1], &a[2], &a[3], a.get(4)),
        ["ctrlib", ..] => ctrrun::ctrlib(&a[1], &a[2], arg(&a, 3), arg(&a, 4), arg(&a, 5), a[6] == "1", a[7] == "1"),
        ["trace", "bits", ..] => facts::bits(&a[2], arg(&a, 3), arg(&a, 4)),
        ["trace", "tinv", ..] => paths::tinv(arg(&a, 2), &a[3], arg(&a, 4)),
        ["replay", "counter", ..] => ctrrun::replay(&a[2], arg(&a, 3), arg(&a, 4), &a[5], arg(&a, 6), arg(&a, 7)),
        ["table", "revcomp", ..] => tables::revcomp(arg(&a, 2)),
        ["table", "posmap", ..] => tables::posmap(arg(&a, 2)),
        ["trace", "rc", ..] => traces::rc(arg(&a, 2), arg(&a, 3)),
        ["trace", "kmerbytes"] => traces::kmer_bytes(),
        _ => {
            eprintln!("usage: kvh table kmer <k> <maxlen> <seed> | ...");
            std::process::exit(2);
        }
    }
}

mod gen;
mod tables;
mod traces;
mod util;

fn arg<T: std::str::FromStr>(a: &[String], i: usize) -> T
where
    T::Err: std::fmt::Debug,
{
    a.get(i).unwrap_or_else(|| panic!("missing argument {}", i)).parse().unwrap()
}

fn main() {
    let a: Vec<String> = std::env::args().skip(1).collect();
    let cmd: Vec<&str> = a.iter().map(|s| s.as_str()).collect();
    match cmd.as_slice() {
        ["table", "kmer", ..] => tables::kmer(arg(&a, 2), arg(&a, 3), arg(&a, 4)),
        ["table", "minimiser", ..] => tables::minimiser(arg(&a, 2), arg(&a, 3), arg(&a, 4), arg(&a, 5), &a[6], false),
        ["table", "kmermin", ..] => tables::minimiser(arg(&a, 2), arg(&a, 3), arg(&a, 4), arg(&a, 5), &a[6], true),
        ["trace", "kmer", ..] => traces::kmer(arg(&a, 2), arg(&a, 3), arg(&a, 4)),
        ["trace", "minimiser", ..] => traces::minimiser(arg(&a, 2), arg(&a, 3), arg(&a, 4), false),
        ["trace", "kmermin", ..] => traces::minimiser(arg(&a, 2), arg(&a, 3), arg(&a, 4), true),
        ["table", "revcomp", ..] => tables::revcomp(arg(&a, 2)),
        ["table", "posmap", ..] => tables::posmap(arg(&a, 2)),
        ["trace", "rc", ..] => traces::rc(arg(&a, 2), arg(&a, 3)),
        ["trace", "kmerbytes"] => traces::kmer_bytes(),
        _ => {
            eprintln!("usage: kvh table kmer <k> <maxlen> <seed> | ...");
            std::process::exit(2);
        }
    }
}

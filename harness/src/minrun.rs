//! Runs of the minimiser outputs (s2m / m2s) under the recorder: free-running (B2) and scheduled (B3).
use crate::files::*;
use crate::gen::*;
use crate::mmaprun::ev_json;
use crate::sched::*;
use crate::util::*;
use serde_json::{json, Value};

fn text_digits(t: &str) -> Vec<i64> {
    t.bytes()
        .map(|b| match b {
            b'A' => 0,
            b'C' => 1,
            b'G' => 2,
            b'T' => 3,
            _ => -1,
        })
        .collect()
}

fn rec_of_id(id: &str) -> i64 {
    id.strip_prefix('r').and_then(|x| x.parse::<i64>().ok()).unwrap_or(-1)
}

/// s2m file: "id\tKMER:s-e\tKMER:s-e\t\n"
pub fn decode_s2m(path: &str, evs: &mut Vec<Value>) {
    decode_s2m_with(path, evs, &|name| rec_of_id(name))
}

pub fn decode_s2m_with(path: &str, evs: &mut Vec<Value>, id_of: &dyn Fn(&str) -> i64) {
    let lines = lines_of(path);
    for l in &lines {
        let mut toks: Vec<&str> = l.split('\t').collect();
        // the line ends with a tab before the newline
        if toks.last() == Some(&"") {
            toks.pop();
        }
        let rec = toks.first().map(|s| id_of(s)).unwrap_or(-1);
        let mut runs: Vec<Value> = Vec::new();
        for t in toks.iter().skip(1) {
            let parsed = t.split_once(':').and_then(|(k, se)| se.split_once('-').map(|(s, e)| (k, s, e)));
            match parsed {
                Some((k, s, e)) => runs.push(json!([text_digits(k), s.parse::<i64>().unwrap_or(-1), e.parse::<i64>().unwrap_or(-1)])),
                None => runs.push(json!([[], -1, -1])),
            }
        }
        evs.push(json!({"ev":"s2mline","rec":rec,"runs":runs}));
    }
    evs.push(json!({"ev":"outlines","n":lines.len()}));
}

/// m2s file: KMER\t[("id", s, e), ("id", s, e)]  (Rust Debug rendering: ids are escaped string literals)
pub fn decode_m2s(path: &str, evs: &mut Vec<Value>) {
    decode_m2s_with(path, evs, &|name| rec_of_id(name))
}

pub fn decode_m2s_with(path: &str, evs: &mut Vec<Value>, id_of: &dyn Fn(&str) -> i64) {
    let lines = lines_of(path);
    for l in &lines {
        let (k, rest) = l.split_once('\t').unwrap_or((l.as_str(), ""));
        let b = rest.trim().as_bytes();
        let mut items: Vec<Value> = Vec::new();
        let mut ok = b.first() == Some(&b'[') && b.last() == Some(&b']');
        let mut i = 1usize;
        while ok && i < b.len() - 1 {
            match parse_item(b, i) {
                Some((name, s, e, next)) => {
                    items.push(json!([id_of(&name), s, e]));
                    i = next;
                    if b[i..].starts_with(b", ") {
                        i += 2;
                    }
                }
                None => ok = false,
            }
        }
        if !ok {
            items.push(json!([-1, -1, -1]));      // a line that does not read back as a list of (name, start, end)
        }
        evs.push(json!({"ev":"m2sline","v":text_digits(k),"items":items}));
    }
    evs.push(json!({"ev":"outlines","n":lines.len()}));
}

pub struct MinCase {
    pub m2s: bool,
    pub w: usize,
    pub m: usize,
    pub threads: usize,
    pub recs: Vec<Vec<u8>>,
    /// id number of each record (">r<id>"); not necessarily unique
    pub ids: Vec<usize>,
    /// when set: the name written for id number i instead of "r<i>" (names with quotes, backslashes, brackets, ...)
    pub names: Option<Vec<String>>,
}

impl MinCase {
    fn name_of(&self, id: usize) -> String {
        match &self.names {
            Some(n) => n[id].clone(),
            None => format!("r{}", id),
        }
    }
    fn write_input(&self, path: &str) {
        use std::io::Write;
        let mut f = std::io::BufWriter::new(std::fs::File::create(path).unwrap());
        for (i, s) in self.recs.iter().enumerate() {
            writeln!(f, ">{}", self.name_of(self.ids[i])).unwrap();
            f.write_all(s).unwrap();
            f.write_all(b"\n").unwrap();
        }
    }
    /// id number of a name read back from an output file (-1: no such name)
    fn id_of(&self, name: &str) -> i64 {
        match &self.names {
            Some(n) => n.iter().position(|x| x == name).map(|p| p as i64).unwrap_or(-1),
            None => rec_of_id(name),
        }
    }
}

/// one item `("<escaped>", s, e)` of Rust's Debug rendering of (String, usize, usize), starting at `i`; returns (name, s, e, next index)
fn parse_item(b: &[u8], mut i: usize) -> Option<(String, i64, i64, usize)> {
    if b.get(i) != Some(&b'(') || b.get(i + 1) != Some(&b'"') {
        return None;
    }
    i += 2;
    let mut name: Vec<u8> = Vec::new();
    loop {
        match *b.get(i)? {
            b'"' => {
                i += 1;
                break;
            }
            b'\\' => {
                match *b.get(i + 1)? {
                    b'n' => name.push(b'\n'),
                    b't' => name.push(b'\t'),
                    b'r' => name.push(b'\r'),
                    b'0' => name.push(0),
                    b'\\' => name.push(b'\\'),
                    b'"' => name.push(b'"'),
                    b'\'' => name.push(b'\''),
                    b'u' => {
                        // \u{hex}
                        let close = b[i..].iter().position(|&c| c == b'}')? + i;
                        let hex = std::str::from_utf8(&b[i + 3..close]).ok()?;
                        let ch = char::from_u32(u32::from_str_radix(hex, 16).ok()?)?;
                        let mut buf = [0u8; 4];
                        name.extend_from_slice(ch.encode_utf8(&mut buf).as_bytes());
                        i = close + 1;
                        continue;
                    }
                    _ => return None,
                }
                i += 2;
            }
            c => {
                name.push(c);
                i += 1;
            }
        }
    }
    let rest = std::str::from_utf8(&b[i..]).ok()?;
    let rest = rest.strip_prefix(", ")?;
    let close = rest.find(')')?;
    let (s, e) = rest[..close].split_once(", ")?;
    let used = (b.len() - i - rest.len()) + close + 1;
    Some((String::from_utf8(name).ok()?, s.parse().ok()?, e.parse().ok()?, i + used))
}

fn run_body(c: &MinCase, inp: &str, out: &str) {
    if c.m2s {
        misc::minimisers::bin_sequences(c.w, c.m, inp, out, c.threads);
    } else {
        misc::minimisers::seq_to_min(c.w, c.m, inp, out, c.threads);
    }
}

fn reset_event(c: &MinCase, mode: &str) -> Value {
    json!({"ev":"reset","mode": if c.m2s {"m2s"} else {"s2m"},"run":mode,"w":c.w,"m":c.m,"recs":c.recs,"ids":c.ids,"nw":c.threads})
}

fn finish(c: &MinCase, out: &str, evs: &mut Vec<Value>) {
    if c.m2s {
        decode_m2s_with(out, evs, &|n| c.id_of(n))
    } else {
        decode_s2m_with(out, evs, &|n| c.id_of(n))
    }
}

pub fn free_run(c: &MinCase, dir: &str, perturb: Option<u64>) -> Vec<Value> {
    let inp = format!("{}/min_in.fa", dir);
    let out = format!("{}/min_out.txt", dir);
    c.write_input(&inp);
    let _ = std::fs::remove_file(&out);
    let rec = Recorder::free(perturb);
    rec.reset_tasks();
    rec.install();
    let res = std::panic::catch_unwind(|| run_body(c, &inp, &out));
    Recorder::uninstall();
    let mut evs = vec![reset_event(c, "free")];
    evs.extend(rec.take_log().iter().map(ev_json));
    match res {
        Ok(()) => finish(c, &out, &mut evs),
        Err(_) => evs.push(json!({"ev":"crash","kind":"panic"})),
    }
    evs
}

pub fn gen_case(rng: &mut Rng, i: usize, maxrecs: usize) -> MinCase {
    let m = if i % 2 == 0 { [1usize, 2, 3, 5, 7, 10, 15, 28][(i / 2) % 8] } else { 1 + rng.below(28) as usize };
    let w = match i % 3 {
        0 => 0,
        1 => m + 1,
        _ => m + 1 + rng.below(if i % 4 == 2 { 12 } else { 45 }) as usize,
    };
    let n = if i % 7 == 6 { rng.below(2) as usize } else { rng.range(1, maxrecs as u64) as usize };
    let recs: Vec<Vec<u8>> = (0..n)
        .map(|j| {
            // shorter than m, around w, and longer records; low-complexity content gives repeated minimisers across records
            let len = match (i + j) % 6 {
                0 => rng.below(m as u64 + 1) as usize,
                1 => (if w == 0 { m } else { w }) + rng.below(3) as usize,
                _ => rng.range(0, 120) as usize,
            };
            gen_seq(rng, len, false)
        })
        .collect();
    if i % 40 == 4 {
        // a few very long records (thousands of runs per line) written by several workers at the same time, among short ones
        let mut recs: Vec<Vec<u8>> = Vec::new();
        for j in 0..12 {
            let len = if j < 4 { rng.range(1800, 2200) as usize } else { rng.range(0, 60) as usize };
            recs.push((0..len).map(|_| *rng.pick(b"ACGT")).collect());
        }
        let ids = (0..recs.len()).collect();
        return MinCase { m2s: false, w: 8, m: 7, threads: 6, recs, ids, names: None };
    }
    let mut recs = recs;
    let mut ids: Vec<usize> = (0..recs.len()).collect();
    if i % 5 >= 3 && !recs.is_empty() {
        // names need not be unique: the same read written twice under one name (identical lines / identical regions), and
        // another sequence under a name already used
        for _ in 0..(1 + rng.below(3)) {
            let j = rng.below(recs.len() as u64) as usize;
            let at = rng.below(recs.len() as u64 + 1) as usize;
            let copy = if rng.below(4) == 0 { let n = rng.range(0, 60) as usize; gen_seq(rng, n, false) } else { recs[j].clone() };
            let id = ids[j];
            recs.insert(at, copy);
            ids.insert(at, id);
        }
    }
    // names as they occur in practice and beyond: database separators, coordinates, quotes, backslashes, non-ASCII (the m2s
    // listing renders names as escaped string literals)
    let names = if i % 4 >= 2 {
        let specials = ["sp|P1|X_Y", "chr1:100-200(+)", "a\"b", "back\\slash", "it's", "[x]", "(p,q)", "\u{e9}t\u{e9}", "k=v;w", "a\"),(\"b", "\u{4e2d}", "tab_no"];
        // (one record - one that has bases - carries the empty name: a header line that is just ">")
        let unnamed = if i % 8 >= 6 { recs.iter().position(|r| r.len() > m + 2) } else { None };
        Some((0..recs.len()).map(|j| if Some(j) == unnamed { String::new() } else { format!("{}_{}", specials[(i + j) % specials.len()], j) }).collect())
    } else {
        None
    };
    MinCase { m2s: i % 2 == 1, w, m, threads: 1 + rng.below(16) as usize, recs, ids, names }
}

/// trace minout <seed> <runs> <dir> <maxrecs>
pub fn free(seed: u64, runs: usize, dir: &str, maxrecs: usize) {
    let mut rng = Rng::new(seed);
    for i in 0..runs {
        let c = gen_case(&mut rng, i, maxrecs);
        let perturb = if i % 2 == 0 { Some(rng.next()) } else { None };
        for e in free_run(&c, dir, perturb) {
            println!("{}", e);
        }
    }
    println!("{}", json!({"ev":"eof"}));
}

/// replay minout <schedfile> <w> <dir> <seed> <stride> <mode>: schedules [[worker,"t"|"e"],..] of OligoMmap-shaped pools
/// (take / emit) replayed into seq_to_min or bin_sequences on three small records
pub fn replay(schedfile: &str, threads: usize, dir: &str, seed: u64, stride: usize, m2s: bool) {
    let text = std::fs::read_to_string(schedfile).unwrap();
    let mut rng = Rng::new(seed);
    let mut done = 0usize;
    let mut unrep = 0usize;
    for (i, line) in text.lines().enumerate() {
        if stride > 1 && (i + seed as usize) % stride != 0 {
            continue;
        }
        let v: Value = serde_json::from_str(line).unwrap();
        let schedule: Vec<(u64, String)> = v.as_array().unwrap().iter().map(|s| (s[0].as_u64().unwrap(), s[1].as_str().unwrap().to_string())).collect();
        let nrec = schedule.iter().filter(|s| s.1 == "w").count();
        let recs: Vec<Vec<u8>> = (0..nrec).map(|_| { let n = rng.range(3, 30) as usize; gen_seq(&mut rng, n, false) }).collect();
        // every third schedule: the second record is the first one again, under the same name
        let mut recs = recs;
        let mut ids: Vec<usize> = (0..recs.len()).collect();
        if i % 3 == 2 && recs.len() >= 2 {
            recs[1] = recs[0].clone();
            ids[1] = ids[0];
        }
        let c = MinCase { m2s, w: if i % 2 == 0 { 0 } else { 4 }, m: 2, threads, recs, ids, names: None };
        let inp = format!("{}/min_in.fa", dir);
        let out = format!("{}/min_out.txt", dir);
        c.write_input(&inp);
        let _ = std::fs::remove_file(&out);
        let rec = Recorder::controlled(
            &["min.worker_start", "min.before_take", if m2s { "min.before_push" } else { "min.before_write" }],
            &["min.worker_exit"],
        );
        rec.reset_tasks();
        rec.install();
        let (inp2, out2) = (inp.clone(), out.clone());
        let (cw, cm, ct) = (c.w, c.m, c.threads);
        let handle = std::thread::spawn(move || {
            if m2s {
                misc::minimisers::bin_sequences(cw, cm, &inp2, &out2, ct);
            } else {
                misc::minimisers::seq_to_min(cw, cm, &inp2, &out2, ct);
            }
        });
        let emit_site: &'static str = if m2s { "min.before_push" } else { "min.before_write" };
        let fail = drive(&rec, threads, &schedule, &|act| if act == "t" { "min.before_take" } else { emit_site });
        rec.release_all();
        let res = handle.join();
        Recorder::uninstall();
        if let Some(f) = fail {
            if f.starts_with("VANISHED") {
                println!("{}", reset_event(&c, "sched"));
                for e in rec.take_log().iter() {
                    println!("{}", ev_json(e));
                }
                println!("{}", json!({"ev":"crash","kind":"vanished","what":f}));
                done += 1;
                break;
            }
            unrep += 1;
            eprintln!("unreplayable schedule {}: {}", i, f);
            if unrep >= 25 {
                break;
            }
            continue;
        }
        let mut evs = vec![reset_event(&c, "sched")];
        evs.extend(rec.take_log().iter().map(ev_json));
        match res {
            Ok(()) => finish(&c, &out, &mut evs),
            Err(_) => evs.push(json!({"ev":"crash","kind":"panic"})),
        }
        for e in evs {
            println!("{}", e);
        }
        done += 1;
    }
    println!("{}", json!({"ev":"eof"}));
    eprintln!("replayed={} unreplayable={}", done, unrep);
}

/// trace minw0big <seed> <dir>: `w = 0` (one window spanning the record) on a record of more than 2^20 bases, through
/// seq_to_min; the single line is turned into the events of one iterator run with w = record length, which LongTrace judges
pub fn w0big(seed: u64, dir: &str) {
    let mut rng = Rng::new(seed);
    let m = 2 + rng.below(2) as usize;
    let n = (1usize << 20) + 30_000 + rng.below(1000) as usize;
    // the smallest m-mers sit near both ends only (a window that does not span the whole record misses one of them)
    let mut s: Vec<u8> = (0..n).map(|_| *rng.pick(b"CG")).collect();
    let p0 = 10 + rng.below(50) as usize;
    s[p0..p0 + 4].copy_from_slice(b"CAAC");
    let inp = format!("{}/w0big.fa", dir);
    let out = format!("{}/w0big.out", dir);
    write_fasta(&inp, &[s.clone(), b"ACGTACGTAC".to_vec()]);
    let _ = std::fs::remove_file(&out);
    let r = std::panic::catch_unwind(|| misc::minimisers::seq_to_min(0, m, &inp, &out, 2));
    if r.is_err() {
        println!("{}", json!({"ev":"crash","kind":"panic","what":"min -w 0 on a long record"}));
    } else {
        let mut evs = Vec::new();
        decode_s2m(&out, &mut evs);
        for e in evs.iter().filter(|e| e["ev"] == "s2mline" && e["rec"] == 0) {
            println!("{}", json!({"ev":"minit","w":n,"m":m,"kv":0,"bytes":s}));
            for run in e["runs"].as_array().unwrap() {
                let mut d = vec![0i64; 32 - m];
                d.extend(run[0].as_array().unwrap().iter().map(|x| x.as_i64().unwrap()));
                println!("{}", json!({"ev":"mrun","open":1,"v":d,"s":run[1],"e":run[2],"kmers":[]}));
            }
            println!("{}", json!({"ev":"mend"}));
        }
    }
    let _ = std::fs::remove_file(&inp);
    let _ = std::fs::remove_file(&out);
    println!("{}", json!({"ev":"eof"}));
}

/// decode minout <fasta> <out> <mode> <w> <m>: an output file written by the command line, as a run of MinOutTrace (one silent worker)
pub fn decode(fasta: &str, out: &str, m2s: bool, w: usize, m: usize) {
    let recs = read_simple_fasta(fasta);
    let ids: Vec<usize> = read_simple_fasta_ids(fasta).iter().map(|&x| x.max(0) as usize).collect();
    let c = MinCase { m2s, w, m, threads: 1, recs, ids, names: None };
    let mut evs = vec![reset_event(&c, "cli")];
    finish(&c, out, &mut evs);
    for e in evs {
        println!("{}", e);
    }
}

//! Event recorder and controlled scheduler on top of the feature-gated hooks (ktio::verif).
//!
//! Free mode: every hook event is appended to a log under one mutex (global sequence number = position in
//! the log); optionally a seeded perturbation (yield / short sleep) is injected at hook sites.
//! Controlled mode (B3): the sites listed as schedule points park the calling worker until the driver grants
//! it; exactly one worker runs between two schedule points, so the real execution is the schedule's
//! interleaving at hook granularity.  Workers are symmetric: logical worker ids are assigned by the driver
//! in the order in which the schedule first names them.
use std::collections::{BTreeMap, HashSet};
use std::sync::atomic::{AtomicU64, Ordering};
use std::sync::{Arc, Condvar, Mutex};
use std::time::{Duration, Instant};

#[derive(Clone, Debug)]
pub struct Event {
    pub t: u64,
    pub site: &'static str,
    pub args: Vec<u64>,
}

#[derive(Default)]
struct Gate {
    parked: BTreeMap<u64, &'static str>,
    turn: Option<u64>, // the worker currently allowed to run (None: nobody runs)
    exited: HashSet<u64>,
    free: bool,
}

pub struct Recorder {
    log: Mutex<Vec<Event>>,
    gate: Mutex<Gate>,
    cv: Condvar,
    points: HashSet<&'static str>,
    exits: HashSet<&'static str>,
    perturb: Option<u64>,
    counter: AtomicU64,
    tasks: AtomicU64,
}

static NEXT_TID: AtomicU64 = AtomicU64::new(1);
thread_local! {
    static TID: u64 = NEXT_TID.fetch_add(1, Ordering::Relaxed);
}
pub fn my_tid() -> u64 {
    TID.with(|t| *t)
}
thread_local! {
    static TASK: std::cell::Cell<u64> = const { std::cell::Cell::new(0) };
}

impl Recorder {
    /// free-running recorder; `perturb` = Some(seed) injects yields/sleeps at hook sites
    pub fn free(perturb: Option<u64>) -> Arc<Recorder> {
        Arc::new(Recorder {
            log: Mutex::new(Vec::new()),
            gate: Mutex::new(Gate { free: true, ..Default::default() }),
            cv: Condvar::new(),
            points: HashSet::new(),
            exits: HashSet::new(),
            perturb,
            counter: AtomicU64::new(0),
            tasks: AtomicU64::new(0),
        })
    }

    /// controlled recorder: `points` park, `exits` mark the end of a worker
    pub fn controlled(points: &[&'static str], exits: &[&'static str]) -> Arc<Recorder> {
        Arc::new(Recorder {
            log: Mutex::new(Vec::new()),
            gate: Mutex::new(Gate::default()),
            cv: Condvar::new(),
            points: points.iter().copied().collect(),
            exits: exits.iter().copied().collect(),
            perturb: None,
            counter: AtomicU64::new(0),
            tasks: AtomicU64::new(0),
        })
    }

    pub fn install(self: &Arc<Self>) {
        let me = Arc::clone(self);
        ktio::verif::set_handler(Some(Arc::new(move |site, args| me.on_event(site, args))));
    }

    pub fn uninstall() {
        ktio::verif::set_handler(None);
    }

    fn on_event(&self, site: &'static str, args: &[u64]) {
        let t = my_tid();
        // the event is logged on ARRIVAL at the site (what the worker has done so far is then in the log before
        // anything another worker does while this one is parked); parking comes after
        {
            let mut log = self.log.lock().unwrap();
            // a worker (task) is numbered when it starts; later events of this thread belong to that task
            if site.ends_with(".worker_start") {
                let id = self.tasks.fetch_add(1, Ordering::Relaxed) + 1;
                TASK.with(|c| c.set(id));
            }
            let task = TASK.with(|c| c.get());
            log.push(Event { t: task, site, args: args.to_vec() });
        }
        if self.points.contains(site) {
            self.park(t, site);
        }
        if self.exits.contains(site) {
            let mut g = self.gate.lock().unwrap();
            if !g.free {
                if g.turn == Some(t) {
                    g.turn = None;
                }
                g.exited.insert(t);
                self.cv.notify_all();
            }
        }
        if let Some(seed) = self.perturb {
            let c = self.counter.fetch_add(1, Ordering::Relaxed);
            let mut x = seed ^ (t.wrapping_mul(0x9E3779B97F4A7C15)) ^ c.wrapping_mul(0xD1B54A32D192ED03);
            x ^= x >> 29;
            x = x.wrapping_mul(0xBF58476D1CE4E5B9);
            x ^= x >> 32;
            match x % 16 {
                0..=3 => std::thread::yield_now(),
                4 => std::thread::sleep(Duration::from_micros(50 + (x >> 8) % 300)),
                _ => {}
            }
        }
    }

    fn park(&self, t: u64, site: &'static str) {
        let mut g = self.gate.lock().unwrap();
        if g.free {
            return;
        }
        g.parked.insert(t, site);
        if g.turn == Some(t) {
            g.turn = None;
        }
        self.cv.notify_all();
        while g.turn != Some(t) && !g.free {
            g = self.cv.wait(g).unwrap();
        }
        g.parked.remove(&t);
    }

    /// driver: wait until `n` workers are parked or exited and nobody runs. None on time-out.
    pub fn wait_quiescent(&self, n: usize, timeout: Duration) -> Option<BTreeMap<u64, &'static str>> {
        let deadline = Instant::now() + timeout;
        let mut g = self.gate.lock().unwrap();
        loop {
            if g.turn.is_none() && g.parked.len() + g.exited.len() >= n {
                return Some(g.parked.clone());
            }
            let now = Instant::now();
            if now >= deadline {
                return None;
            }
            let (ng, _) = self.cv.wait_timeout(g, deadline - now).unwrap();
            g = ng;
        }
    }

    /// driver: let worker `t` run to its next schedule point (or exit); follow with wait_quiescent
    pub fn grant(&self, t: u64) {
        let mut g = self.gate.lock().unwrap();
        g.turn = Some(t);
        self.cv.notify_all();
    }

    /// driver: stop gating; every parked worker proceeds freely
    pub fn release_all(&self) {
        let mut g = self.gate.lock().unwrap();
        g.free = true;
        g.turn = None;
        self.cv.notify_all();
    }

    /// reset the gate for the next phase (e.g. the next chunk's worker pool)
    pub fn regate(&self) {
        let mut g = self.gate.lock().unwrap();
        g.free = false;
        g.parked.clear();
        g.exited.clear();
        g.turn = None;
    }

    pub fn exited(&self) -> usize {
        self.gate.lock().unwrap().exited.len()
    }

    pub fn take_log(&self) -> Vec<Event> {
        std::mem::take(&mut *self.log.lock().unwrap())
    }

    /// new numbering of tasks from 1 (next run / next worker pool); also forget this thread's task
    pub fn reset_tasks(&self) {
        self.tasks.store(0, Ordering::Relaxed);
        TASK.with(|c| c.set(0));
    }

    pub fn push(&self, site: &'static str, args: &[u64]) {
        self.log.lock().unwrap().push(Event { t: 0, site, args: args.to_vec() });
    }
}


/// drive a single worker pool through a schedule [(model worker, action)]: all `threads` workers first arrive at their
/// worker_start point and are started one by one up to their first schedule point; then each step grants the worker
/// that the schedule names, provided it is parked at the site `want(action)`. Returns why the schedule could not be followed.
pub fn drive(rec: &Recorder, threads: usize, schedule: &[(u64, String)], want: &dyn Fn(&str) -> &'static str) -> Option<String> {
    let to = Duration::from_secs(30);
    match rec.wait_quiescent(threads, to) {
        None => return Some("workers did not all arrive at worker_start".into()),
        Some(parked) => {
            for (&tid, _) in parked.iter() {
                rec.grant(tid);
                if rec.wait_quiescent(threads, to).is_none() {
                    return Some("worker did not reach its first schedule point".into());
                }
            }
        }
    }
    let mut assign: std::collections::HashMap<u64, u64> = std::collections::HashMap::new();
    for (w, act) in schedule {
        let parked = match rec.wait_quiescent(threads, to) {
            Some(p) => p,
            None => return Some("not quiescent".into()),
        };
        let tid = match assign.get(w) {
            Some(t) => *t,
            None => {
                let used: HashSet<u64> = assign.values().copied().collect();
                match parked.keys().find(|t| !used.contains(t)) {
                    Some(&t) => {
                        assign.insert(*w, t);
                        t
                    }
                    None => return Some(format!("no free thread for model worker {}", w)),
                }
            }
        };
        let site = want(act);
        if parked.get(&tid) != Some(&site) {
            return Some(format!("worker {} is at {:?}, schedule wants {}", w, parked.get(&tid), site));
        }
        rec.grant(tid);
        if rec.wait_quiescent(threads, to).is_none() {
            return Some("VANISHED: granted worker neither reached a schedule point nor exited".into());
        }
    }
    None
}

//! Executes a library configuration given as JSON (the Wire(o) record printed by TLC for an option vector): C15 "CLI = library".
use composition::{cgr::CgrComputer, oligo::OligoComputer, oligocgr::OligoCgrComputer};
use counter::CountComputer;
use coverage::CovComputer;
use serde_json::Value;

/// lib <wire-json> <in> <out> [<alt-in>]   exit status 0, or 3 if the library returned Err / panicked
pub fn run(wire: &str, inp: &str, out: &str, alt: Option<&String>) {
    let w: Value = serde_json::from_str(wire).unwrap();
    let threads = w["threads"].as_u64().unwrap_or(0) as usize;
    let lib = w["lib"].as_str().unwrap().to_string();
    let res = std::panic::catch_unwind(|| -> Result<(), String> {
        match lib.as_str() {
            "oligo" => {
                let mut c = OligoComputer::new(inp.to_string(), out.to_string(), w["k"].as_u64().unwrap() as usize);
                if threads > 0 {
                    c.set_threads(threads);
                }
                c.set_norm(w["norm"].as_bool().unwrap());
                c.set_header(w["header"].as_bool().unwrap());
                c.set_delim(w["delim"].as_str().unwrap().to_string());
                // the writer strategy follows from the input (stdin) and the mode; the wire names which one that must be
                match w["path"].as_str().unwrap() {
                    "mmap" => c.verif_vectorise_mmap(),
                    _ => c.verif_vectorise_batch(),
                }
            }
            "cgr" => {
                let mut c = CgrComputer::new(inp.to_string(), out.to_string(), w["vecsize"].as_u64().unwrap() as usize);
                if threads > 0 {
                    c.set_threads(threads);
                }
                c.vectorise()
            }
            "oligocgr" => {
                let mut c = OligoCgrComputer::new(inp.to_string(), out.to_string(), w["k"].as_u64().unwrap() as usize, w["vecsize"].as_u64().unwrap() as usize);
                if threads > 0 {
                    c.set_threads(threads);
                }
                c.set_norm(w["norm"].as_bool().unwrap());
                c.vectorise()
            }
            "cov" => {
                std::fs::create_dir_all(out).unwrap();
                let mut c = CovComputer::new(inp.to_string(), out.to_string(), w["k"].as_u64().unwrap() as usize, w["bs"].as_u64().unwrap() as usize, w["bc"].as_u64().unwrap() as usize);
                if threads > 0 {
                    c.set_threads(threads);
                }
                if w["alt"].as_bool().unwrap() {
                    c.set_kmer_path(alt.unwrap().clone());
                }
                c.set_norm(w["norm"].as_bool().unwrap());
                c.set_max_memory(w["memory"].as_u64().unwrap() as f64);
                c.set_delim(w["delim"].as_str().unwrap().to_string());
                c.build_table()?;
                c.compute_coverages();
                Ok(())
            }
            "s2m" | "m2s" => {
                let (wz, m) = (w["w"].as_u64().unwrap() as usize, w["m"].as_u64().unwrap() as usize);
                if lib == "m2s" {
                    misc::minimisers::bin_sequences(wz, m, inp, out, threads);
                } else {
                    misc::minimisers::seq_to_min(wz, m, inp, out, threads);
                }
                Ok(())
            }
            "ctr" => {
                std::fs::create_dir_all(out).unwrap();
                let mut c = CountComputer::new(inp.to_string(), out.to_string(), w["k"].as_u64().unwrap() as usize);
                if threads > 0 {
                    c.set_threads(threads);
                }
                c.set_acgt_output(w["acgt"].as_bool().unwrap());
                c.set_max_memory(w["memory"].as_u64().unwrap() as f64);
                c.count();
                c.merge(w["delete"].as_bool().unwrap());
                Ok(())
            }
            other => Err(format!("unknown lib {}", other)),
        }
    });
    match res {
        Ok(Ok(())) => {}
        Ok(Err(e)) => {
            eprintln!("library error: {}", e);
            std::process::exit(3);
        }
        Err(_) => std::process::exit(3),
    }
}

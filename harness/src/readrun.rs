//! C06: materialise reader scenarios as real files, read them through ktio::seq, record what came back.
use crate::containers::*;
use crate::gen::*;
use crate::util::*;
use ktio::seq::{get_reader, SeqFormat, Sequences};
use serde_json::{json, Value};

pub struct Phys {
    pub crlf: bool,
    pub final_nl: bool,
    pub gz: Option<(Vec<usize>, bool)>, // byte cut points, stored blocks?
    pub ext: &'static str,
}

fn fmt_name(f: Option<SeqFormat>) -> &'static str {
    match f {
        Some(SeqFormat::Fasta) => "fasta",
        Some(SeqFormat::Fastq) => "fastq",
        None => "none",
    }
}

pub fn run_one(recs: &[Rec], fastq: bool, wrap: usize, cut_line: usize, phys: &Phys, dir: &str, tag: &str) -> Vec<Value> {
    let lay = Layout { fastq, wrap, crlf: phys.crlf, final_nl: phys.final_nl };
    let lines = lines_of_records(recs, &lay);
    let bytes = join_lines(&lines, &lay);
    // file names as they occur in practice: inner dots before the suffix (GCF_000005845.2_ASM584v2_genomic.fna.gz)
    // ... and inner parts that look like the suffix of the OTHER format (reads.fastq.fa is a FASTA file: the last suffix decides)
    let inner = match bytes.len() % 4 {
        0 => ".2_ASM584v2",
        1 => "",
        2 => if fastq { ".fa" } else { ".fastq" },
        _ => if fastq { ".fasta.gz" } else { ".fq.gz" },
    };
    let path = format!("{}/rd_{}{}.{}{}", dir, tag, inner, phys.ext, if phys.gz.is_some() { ".gz" } else { "" });
    let data = match &phys.gz {
        None => bytes.clone(),
        Some((cuts, stored)) => gzip_members(&split_at(&bytes, cuts), *stored),
    };
    std::fs::write(&path, &data).unwrap();
    let mut evs: Vec<Value> = Vec::new();
    let jrecs: Vec<Value> = recs.iter().map(|r| json!({"id": r.id, "desc": if r.desc.is_some() {1} else {0}, "seq": r.seq})).collect();
    evs.push(json!({"ev":"ropen","recs":jrecs,"fastq": if fastq {1} else {0},"wrap":wrap,"cut":cut_line,
        "crlf":phys.crlf,"final_nl":phys.final_nl,"gz_members":phys.gz.as_ref().map(|g| g.0.len() + 1).unwrap_or(0),"ext":phys.ext,"bytes":bytes.len()}));
    let fmt = SeqFormat::get(&path);
    evs.push(json!({"ev":"rfmt","ext":phys.ext,"gz":phys.gz.is_some(),"got":fmt_name(fmt)}));
    let res = std::panic::catch_unwind(|| {
        let mut out: Vec<Value> = Vec::new();
        let format = SeqFormat::get(&path).unwrap();
        let reader = get_reader(&path).unwrap();
        let seqs = Sequences::new(format, reader).unwrap();
        for s in seqs {
            out.push(json!({"ev":"rrec","n":s.n,"id":s.id.as_bytes(),"seq":s.seq}));
        }
        out.push(json!({"ev":"reof"}));
        let reader = get_reader(&path).unwrap();
        let st = Sequences::seq_stats(format, reader);
        out.push(json!({"ev":"rstats","count":st.seq_count,"total":st.total_length}));
        out
    });
    match res {
        Ok(v) => evs.extend(v),
        Err(_) => evs.push(json!({"ev":"crash","kind":"panic"})),
    }
    let _ = std::fs::remove_file(&path);
    evs
}

fn byte_offset_after_line(recs: &[Rec], lay: &Layout, line: usize) -> usize {
    let lines = lines_of_records(recs, lay);
    let term = if lay.crlf { 2 } else { 1 };
    lines.iter().take(line).map(|l| l.len() + term).sum()
}

/// replay reader <scenfile> <dir> <seed> <stride>: scenarios printed by TLC (ScenReader.cfg)
pub fn replay(scenfile: &str, dir: &str, seed: u64, stride: usize) {
    let text = std::fs::read_to_string(scenfile).unwrap();
    let mut done = 0usize;
    for (i, line) in text.lines().enumerate() {
        if stride > 1 && (i + seed as usize) % stride != 0 {
            continue;
        }
        let v: Value = serde_json::from_str(line).unwrap();
        let recs: Vec<Rec> = v["recs"]
            .as_array()
            .unwrap()
            .iter()
            .map(|r| Rec {
                id: format!("r{}x", r["id"].as_u64().unwrap()).into_bytes(),
                desc: match r["desc"].as_u64().unwrap() { 1 => Some(b"d e  f".to_vec()), 2 => Some(b"\tBC:Z:ACGT\tq x".to_vec()), _ => None },
                seq: r["seq"].as_array().unwrap().iter().map(|b| b.as_u64().unwrap() as u8).collect(),
            })
            .collect();
        let fastq = v["fastq"].as_bool().unwrap();
        let wrap = v["wrap"].as_u64().unwrap() as usize;
        let cut = v["cut"].as_u64().unwrap() as usize;
        let crlf = i % 2 == 1;
        let final_nl = (i / 2) % 2 == 0;
        let lay = Layout { fastq, wrap, crlf, final_nl };
        let gz = if cut > 0 {
            Some((vec![byte_offset_after_line(&recs, &lay, cut)], (i / 4) % 2 == 0))
        } else if (i / 4) % 3 == 0 {
            Some((vec![], false))
        } else {
            None
        };
        let ext = if fastq { ["fq", "fastq"][i % 2] } else { ["fa", "fasta", "fna"][i % 3] };
        let phys = Phys { crlf, final_nl, gz, ext };
        for e in run_one(&recs, fastq, wrap, cut, &phys, dir, "s") {
            println!("{}", e);
        }
        done += 1;
    }
    println!("{}", json!({"ev":"eof"}));
    eprintln!("replayed={}", done);
}

/// trace reader <seed> <runs> <dir> <maxlen>: random larger record lists, wrap widths 1..200, members split at arbitrary bytes
pub fn free(seed: u64, runs: usize, dir: &str, maxlen: usize) {
    let mut rng = Rng::new(seed);
    for i in 0..runs {
        let fastq = i % 3 == 2;
        let n = if i % 9 == 0 { rng.below(2) as usize } else { rng.range(1, 12) as usize };
        let recs: Vec<Rec> = (0..n)
            .map(|j| {
                let len = match (i + j) % 7 {
                    0 if !fastq => 0,
                    1 => rng.range(1, 5) as usize,
                    _ => rng.range(1, maxlen as u64) as usize,
                };
                let mut s = gen_seq(&mut rng, len, false);
                for b in s.iter_mut() {
                    if *b == b'>' || *b == b'@' || *b == b'+' {
                        *b = b'N';
                    }
                }
                let idlen = if j % 11 == 7 { 300 } else { rng.range(1, 12) as usize };
                let id: Vec<u8> = (0..idlen).map(|_| *rng.pick(b"abcXYZ0189_.|:-")).collect();
                let desc = match j % 4 {
                    0 => None,
                    1 => Some(b"len=12 sample".to_vec()),
                    2 => Some(b"\tx".to_vec()),
                    _ => Some(b"\x0cafter a form feed".to_vec()),
                };
                Rec { id, desc, seq: s }
            })
            .collect();
        // one run holds a very long single-line record (beyond any reader buffer size) between two short ones
        let huge = i == 5;
        let recs: Vec<Rec> = if huge {
            let big: Vec<u8> = (0..150_000).map(|_| *rng.pick(b"ACGTacgtN")).collect();
            vec![Rec { id: b"s1".to_vec(), desc: None, seq: b"ACGT".to_vec() }, Rec { id: b"big".to_vec(), desc: Some(b"long one".to_vec()), seq: big },
                 Rec { id: b"s2".to_vec(), desc: None, seq: b"TTGCA".to_vec() }]
        } else {
            recs
        };
        // one run holds 18 FASTA records of exactly 64 KiB each on disk: every header starts on a 64 KiB boundary (one at 1 MiB),
        // so record boundaries coincide with the boundaries of any power-of-two block a reader or a counting pass may use
        let aligned = i == 6;
        let recs: Vec<Rec> = if aligned {
            (0..18)
                .map(|j| {
                    let id = format!("r{}", j).into_bytes();
                    let len = 65_536 - (id.len() + 2) - 1;
                    Rec { id, desc: None, seq: (0..len).map(|_| *rng.pick(b"ACGTacgtN")).collect() }
                })
                .collect()
        } else {
            recs
        };
        let fastq = fastq && !aligned;
        let wrap = if i % 4 == 0 || huge || aligned { 0 } else { rng.range(1, 200) as usize };
        // indented records and blanks between blocks of letters (as in flat-file exports): a blank or tab that is not the last
        // byte of its line is a base like any other byte, and positions downstream count it
        let mut recs = recs;
        for (j, r) in recs.iter_mut().enumerate() {
            if (i + j) % 4 != 1 || r.seq.len() < 3 {
                continue;
            }
            let mut at = vec![0usize, rng.below(r.seq.len() as u64) as usize];
            if j % 2 == 0 {
                at.push(1);
            }
            for p in at {
                let line_final = p + 1 == r.seq.len() || (wrap > 0 && (p + 1) % wrap == 0);
                if !line_final {
                    r.seq[p] = *rng.pick(b"  \t");
                }
            }
        }
        let crlf = i % 5 == 1 && !aligned;
        let final_nl = i % 6 != 2;
        let lay = Layout { fastq, wrap, crlf, final_nl };
        let total = join_lines(&lines_of_records(&recs, &lay), &lay).len();
        let gz = match if aligned { 0 } else { i % 4 } {
            0 => None,
            1 => Some((vec![], false)),
            _ => {
                // (one run: thousands of tiny members, as a stream of bgzip blocks of a few bytes each would be)
                let members = if i == 10 { 3000.min(total.max(2)) } else { rng.range(2, 5) as usize };
                let mut cuts: Vec<usize> = (1..members).map(|_| rng.below(total as u64 + 1) as usize).collect();
                // empty members occur in practice (cat of bgzip files: every bgzip file ends with an empty block)
                match i % 12 {
                    2 => cuts.push(cuts[0]),          // an empty member in the middle
                    6 => cuts.push(0),                // an empty first member
                    10 => cuts.push(total),           // an empty last member
                    _ => {}
                }
                cuts.sort();
                Some((cuts, i % 8 < 4))
            }
        };
        let ext = if fastq { ["fq", "fastq"][i % 2] } else { ["fa", "fasta", "fna"][i % 3] };
        let phys = Phys { crlf, final_nl, gz, ext };
        // the tab-description case: a header "id\tx" - the id ends at the first whitespace
        let recs2: Vec<Rec> = recs
            .iter()
            .map(|r| match &r.desc {
                Some(d) if d.first() == Some(&b'\t') || d.first() == Some(&0x0c) => {
                    let mut id = r.id.clone();
                    // serialised as id + ' ' + desc by lines_of_records; keep the id itself free of whitespace
                    id.retain(|b| *b != b' ' && *b != b'\t');
                    Rec { id, desc: Some(d.clone()), seq: r.seq.clone() }
                }
                _ => r.clone(),
            })
            .collect();
        for e in run_one(&recs2, fastq, wrap, 0, &phys, dir, "f") {
            println!("{}", e);
        }
    }
    // suffixes that are not sequence files
    for ext in ["txt", "fa.bz2", "fastx", "gz"] {
        let p = format!("x.{}", ext);
        println!("{}", json!({"ev":"rfmt","ext":ext,"gz":false,"got":fmt_name(SeqFormat::get(&p))}));
    }
    // names that consist of the suffix alone (a hidden file ".fa" in some directory), and suffixes after a directory with dots
    for (name, ext) in [("dir/.fa", "fa"), ("dir/.fastq.gz", "fastq"), (".fq", "fq"), ("a.b/c.d/.fna", "fna"), ("v1.2/x.fasta", "fasta"), ("x.fa/y.fq", "fq")] {
        println!("{}", json!({"ev":"rfmt","ext":ext,"gz":name.ends_with(".gz"),"got":fmt_name(SeqFormat::get(name))}));
    }
    println!("{}", json!({"ev":"eof"}));
}

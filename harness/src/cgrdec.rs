//! Exact decoding of CGR coordinates (f64) into integers the specification can judge.
//! x_i = S * N / 2^(i+1) with N an odd integer < 2^(i+1): recover N exactly, or report that no such N exists.

/// numerator of v over S at depth `bits`: v * 2^bits / S as an exact integer, if it is one
pub fn numerator(v: f64, s: u64, bits: u32) -> Option<u64> {
    if !(v.is_finite()) || v < 0.0 || bits > 62 || s == 0 {
        return None;
    }
    if v == 0.0 {
        return Some(0);
    }
    // v = mant * 2^exp exactly (integer decoding of the double); t = v * 2^bits as an exact 128-bit integer
    let b = v.to_bits();
    let raw_exp = ((b >> 52) & 0x7ff) as i64;
    let frac = b & ((1u64 << 52) - 1);
    let (mant, exp) = if raw_exp == 0 { (frac, -1074i64) } else { (frac | (1u64 << 52), raw_exp - 1075) };
    let sh = exp + bits as i64;
    let t: u128 = if sh >= 0 {
        if sh > 70 {
            return None;
        }
        (mant as u128) << sh
    } else {
        let d = (-sh) as u32;
        if d >= 64 || mant & ((1u64 << d) - 1) != 0 {
            return None; // not an integer at this depth
        }
        (mant >> d) as u128
    };
    if t % s as u128 != 0 {
        return None;
    }
    let q = t / s as u128;
    if q > u64::MAX as u128 { None } else { Some(q as u64) }
}

/// top `n` bits of v / S by doubling (v in [0, S)); used beyond the exact phase
pub fn top_bits(v: f64, s: u64, n: usize) -> Vec<u8> {
    let mut out = Vec::with_capacity(n);
    let sf = s as f64;
    let mut x = v;
    for _ in 0..n {
        x *= 2.0;
        if x >= sf {
            out.push(1);
            x -= sf;
        } else {
            out.push(0);
        }
    }
    out
}

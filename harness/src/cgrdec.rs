//! Exact decoding of CGR coordinates (f64) into integers the specification can judge.
//! x_i = S * N / 2^(i+1) with N an odd integer < 2^(i+1): recover N exactly, or report that no such N exists.

/// numerator of v over S at depth `bits`: v * 2^bits / S as an exact integer, if it is one
pub fn numerator(v: f64, s: u64, bits: u32) -> Option<u64> {
    if !(v.is_finite()) || v < 0.0 || bits > 62 {
        return None;
    }
    // scaling by a power of two is exact in f64 (no overflow here: v <= 2^20, bits <= 62)
    let t = v * (2f64).powi(bits as i32);
    if t.fract() != 0.0 || t >= 9.007199254740992e15 {
        return None;
    }
    let ti = t as u64;
    if s == 0 || ti % s != 0 {
        return None;
    }
    Some(ti / s)
}

/// top `n` bits of v / S by doubling (v in [0, S)); used beyond the exact phase
pub fn top_bits(v: f64, s: u64, n: usize) -> Vec<u8> {
    let mut out = Vec::with_capacity(n);
    let sf = s as f64;
    let mut x = v;
    for _ in 0..n {
        x *= 2.0;
        if x >= sf {
            out.push(1);
            x -= sf;
        } else {
            out.push(0);
        }
    }
    out
}

//! Serialisation of abstract record lists into the containers the reader accepts (fixtures; standard formats).
use flate2::Compression;
use std::io::Write;

#[derive(Clone, Debug)]
pub struct Rec {
    pub id: Vec<u8>,
    pub desc: Option<Vec<u8>>,
    pub seq: Vec<u8>,
}

#[derive(Clone, Debug)]
pub struct Layout {
    pub fastq: bool,
    pub wrap: usize, // 0 = single line
    pub crlf: bool,
    pub final_nl: bool,
}

/// the lines (without terminators) of the serialised file
pub fn lines_of_records(recs: &[Rec], lay: &Layout) -> Vec<Vec<u8>> {
    let mut lines: Vec<Vec<u8>> = Vec::new();
    for r in recs {
        let mut h = vec![if lay.fastq { b'@' } else { b'>' }];
        h.extend_from_slice(&r.id);
        if let Some(d) = &r.desc {
            // a description that starts with a tab is separated from the id by that tab alone ("id<TAB>tag:value", as tools
            // that append tags to read names write it); any other description by a blank
            // (a form feed is white space, too)
            if d.first() != Some(&b'\t') && d.first() != Some(&0x0c) {
                h.push(b' ');
            }
            h.extend_from_slice(d);
        }
        lines.push(h);
        let chunks: Vec<Vec<u8>> = if lay.wrap == 0 || r.seq.is_empty() {
            vec![r.seq.clone()]
        } else {
            r.seq.chunks(lay.wrap).map(|c| c.to_vec()).collect()
        };
        for c in &chunks {
            lines.push(c.clone());
        }
        if lay.fastq {
            lines.push(b"+".to_vec());
            for (ci, c) in chunks.iter().enumerate() {
                // quality strings may begin with '@', '>' or '+' (all are legal quality characters)
                let mut q = vec![b'I'; c.len()];
                if !q.is_empty() {
                    q[0] = [b'I', b'@', b'>', b'+', b'#'][(r.seq.len() + ci) % 5];
                }
                lines.push(q);
            }
        }
    }
    lines
}

pub fn join_lines(lines: &[Vec<u8>], lay: &Layout) -> Vec<u8> {
    let term: &[u8] = if lay.crlf { b"\r\n" } else { b"\n" };
    let mut out = Vec::new();
    for (i, l) in lines.iter().enumerate() {
        out.extend_from_slice(l);
        if i + 1 < lines.len() || lay.final_nl {
            out.extend_from_slice(term);
        }
    }
    out
}

pub fn gzip_members(parts: &[&[u8]], stored: bool) -> Vec<u8> {
    let mut out = Vec::new();
    for (i, p) in parts.iter().enumerate() {
        let level = if stored { Compression::none() } else { Compression::default() };
        // members as other tools write them: with a file name, a comment, an extra field (bgzip's "BC" subfield), a changed
        // modification time - all legal header fields a reader has to skip
        let b = flate2::GzBuilder::new();
        let b = match i % 4 {
            1 => b.filename("reads.fa").mtime(1_600_000_000),
            2 => b.comment("made by a test").extra(vec![66, 67, 2, 0, 255, 255]),
            3 => b.filename("x").comment("y").extra(vec![1, 2, 3]),
            _ => b,
        };
        let mut e = b.write(Vec::new(), level);
        e.write_all(p).unwrap();
        out.extend_from_slice(&e.finish().unwrap());
    }
    out
}

/// split `data` at the given byte offsets (ascending) into members
pub fn split_at<'a>(data: &'a [u8], cuts: &[usize]) -> Vec<&'a [u8]> {
    let mut parts = Vec::new();
    let mut prev = 0;
    for &c in cuts {
        let c = c.min(data.len());
        parts.push(&data[prev..c]);
        prev = c;
    }
    parts.push(&data[prev..]);
    parts
}

//! C05: the same records through every container, writer strategy, thread count and batch limit must give the same bytes.
use crate::containers::*;
use crate::files::*;
use crate::gen::*;
use crate::util::*;
use serde_json::json;

fn fnv(data: &[u8]) -> String {
    let mut h: u64 = 0xcbf29ce484222325;
    for &b in data {
        h ^= b as u64;
        h = h.wrapping_mul(0x100000001b3);
    }
    format!("{:016x}", h)
}

/// trace oligopaths <seed> <groups> <dir> <maxn>
pub fn oligo_paths(seed: u64, groups: usize, dir: &str, maxn: usize) {
    let mut rng = Rng::new(seed);
    for g in 0..groups {
        // every third group is large (hundreds of records in one batch / many rows per worker)
        let n = if g % 3 == 1 { rng.range(250, 500) as usize } else { rng.range(1, maxn as u64) as usize };
        let k = 1 + (g % 4);
        let delim = ["", " ", ",", "\t", "::"][g % 5];
        // every fourth group holds records without bases as well; FASTQ cannot hold those, so its FASTQ containers are left out
        let with_empty = g % 4 == 2;
        let recs: Vec<Rec> = (0..n)
            .map(|i| {
                let len = if with_empty && i % 3 == 1 { 0 } else { rng.range(1, 150) as usize };
                let mut s = gen_seq(&mut rng, len, false);
                for b in s.iter_mut() {
                    // keep FASTQ/FASTA structure characters out of sequence lines
                    if *b == b'>' || *b == b'@' || *b == b'+' {
                        *b = b'N';
                    }
                }
                Rec { id: format!("r{}", i).into_bytes(), desc: if i % 3 == 0 { Some(b"some desc".to_vec()) } else { None }, seq: s }
            })
            .collect();
        let mut inputs: Vec<(String, String)> = Vec::new(); // (label, path)
        let mk = |label: &str, ext: &str, lay: Layout, gz: Option<(usize, bool)>, rng: &mut Rng| -> (String, String) {
            let path = format!("{}/paths_{}.{}", dir, label, ext);
            let bytes = join_lines(&lines_of_records(&recs, &lay), &lay);
            let data = match gz {
                None => bytes,
                Some((members, stored)) => {
                    let mut cuts: Vec<usize> = (1..members).map(|_| rng.below(bytes.len() as u64 + 1) as usize).collect();
                    cuts.sort();
                    gzip_members(&split_at(&bytes, &cuts), stored)
                }
            };
            std::fs::write(&path, data).unwrap();
            (label.to_string(), path)
        };
        let plain = Layout { fastq: false, wrap: 0, crlf: false, final_nl: true };
        inputs.push(mk("fa", "fa", plain.clone(), None, &mut rng));
        inputs.push(mk("wrapped", "fasta", Layout { wrap: rng.range(1, 60) as usize, ..plain.clone() }, None, &mut rng));
        inputs.push(mk("crlf", "fna", Layout { crlf: true, final_nl: false, ..plain.clone() }, None, &mut rng));
        if !with_empty {
            inputs.push(mk("fq", "fq", Layout { fastq: true, ..plain.clone() }, None, &mut rng));
        }
        inputs.push(mk("gz", "fa.gz", plain.clone(), Some((1, false)), &mut rng));
        inputs.push(mk("gz3", "fasta.gz", plain.clone(), Some((3, g % 2 == 0)), &mut rng));
        if !with_empty {
            inputs.push(mk("fqgz2", "fastq.gz", Layout { fastq: true, ..plain.clone() }, Some((2, false)), &mut rng));
        }
        let mut first: Option<String> = None;
        for (label, path) in &inputs {
            for (pname, wp) in [("mmap", WPath::Mmap), ("batch", WPath::Batch)] {
                let threads = 1 + rng.below(16) as usize;
                let mem = *rng.pick(&[1usize, 7, 64, 1 << 32]);
                let out = format!("{}/paths_out.txt", dir);
                let _ = std::fs::remove_file(&out);
                let res = std::panic::catch_unwind(|| run_oligo(path, &out, k, true, wp, threads, delim, false, Some(mem)));
                let data = std::fs::read(&out).unwrap_or_default();
                let lines = data.iter().filter(|&&b| b == b'\n').count();
                let d = if matches!(res, Ok(Ok(()))) { fnv(&data) } else { "failed".to_string() };
                if first.is_none() {
                    first = Some(d.clone());
                }
                println!(
                    "{}",
                    json!({"ev":"same","group":g,"cfg":format!("{}-{}-t{}-m{}", label, pname, threads, mem),"digest":d,"first":first,"lines":lines,"n":n,"hdr":0})
                );
            }
        }
        // header: exactly one extra first line, the rest unchanged (both writers)
        for (pname, wp) in [("mmap", WPath::Mmap), ("batch", WPath::Batch)] {
            let out = format!("{}/paths_out.txt", dir);
            let _ = std::fs::remove_file(&out);
            let res = std::panic::catch_unwind(|| run_oligo(&inputs[0].1, &out, k, true, wp, 3, delim, true, None));
            let data = std::fs::read(&out).unwrap_or_default();
            let lines = data.iter().filter(|&&b| b == b'\n').count();
            let body: &[u8] = match data.iter().position(|&b| b == b'\n') {
                Some(p) => &data[p + 1..],
                None => &[],
            };
            let d = if matches!(res, Ok(Ok(()))) { fnv(body) } else { "failed".to_string() };
            println!(
                "{}",
                json!({"ev":"same","group":g,"cfg":format!("header-{}", pname),"digest":d,"first":first,"lines":lines,"n":n,"hdr":1})
            );
        }
        for (_, p) in &inputs {
            let _ = std::fs::remove_file(p);
        }
    }
    println!("{}", json!({"ev":"eof"}));
}

//! C05: the same records through every container, writer strategy, thread count and batch limit must give the same bytes.
use crate::containers::*;
use crate::files::*;
use crate::gen::*;
use crate::util::*;
use serde_json::json;

pub fn fnv(data: &[u8]) -> String {
    let mut h: u64 = 0xcbf29ce484222325;
    for &b in data {
        h ^= b as u64;
        h = h.wrapping_mul(0x100000001b3);
    }
    format!("{:016x}", h)
}

/// trace oligopaths <seed> <groups> <dir> <maxn>
pub fn oligo_paths(seed: u64, groups: usize, dir: &str, maxn: usize) {
    let mut rng = Rng::new(seed);
    for g in 0..groups {
        // every third group is large (hundreds of records in one batch / many rows per worker)
        let n = if g % 3 == 1 { rng.range(250, 500) as usize } else { rng.range(1, maxn as u64) as usize };
        let k = 1 + (g % 4);
        let delim = ["", " ", ",", "\t", "::"][g % 5];
        // every fourth group holds records without bases as well; FASTQ cannot hold those, so its FASTQ containers are left out
        let with_empty = g % 4 == 2;
        let recs: Vec<Rec> = (0..n)
            .map(|i| {
                let len = if with_empty && i % 3 == 1 { 0 } else { rng.range(1, 150) as usize };
                let mut s = gen_seq(&mut rng, len, false);
                for b in s.iter_mut() {
                    // keep FASTQ/FASTA structure characters out of sequence lines
                    if *b == b'>' || *b == b'@' || *b == b'+' {
                        *b = b'N';
                    }
                }
                Rec { id: format!("r{}", i).into_bytes(), desc: if i % 3 == 0 { Some(b"some desc".to_vec()) } else { None }, seq: s }
            })
            .collect();
        let mut inputs: Vec<(String, String)> = Vec::new(); // (label, path)
        let mk = |label: &str, ext: &str, lay: Layout, gz: Option<(usize, bool)>, rng: &mut Rng| -> (String, String) {
            let path = format!("{}/paths_{}.{}", dir, label, ext);
            let bytes = join_lines(&lines_of_records(&recs, &lay), &lay);
            let data = match gz {
                None => bytes,
                Some((members, stored)) => {
                    let mut cuts: Vec<usize> = (1..members).map(|_| rng.below(bytes.len() as u64 + 1) as usize).collect();
                    cuts.sort();
                    gzip_members(&split_at(&bytes, &cuts), stored)
                }
            };
            std::fs::write(&path, data).unwrap();
            (label.to_string(), path)
        };
        let plain = Layout { fastq: false, wrap: 0, crlf: false, final_nl: true };
        inputs.push(mk("fa", "fa", plain.clone(), None, &mut rng));
        inputs.push(mk("wrapped", "fasta", Layout { wrap: rng.range(1, 60) as usize, ..plain.clone() }, None, &mut rng));
        inputs.push(mk("crlf", "fna", Layout { crlf: true, final_nl: false, ..plain.clone() }, None, &mut rng));
        if !with_empty {
            inputs.push(mk("fq", "fq", Layout { fastq: true, ..plain.clone() }, None, &mut rng));
            // FASTQ with bases and qualities wrapped over several lines (the reader accepts it; a line count is not a record count)
            inputs.push(mk("fqwrapped", "fastq", Layout { fastq: true, wrap: rng.range(1, 40) as usize, ..plain.clone() }, None, &mut rng));
        }
        inputs.push(mk("gz", "fa.gz", plain.clone(), Some((1, false)), &mut rng));
        inputs.push(mk("gz3", "fasta.gz", plain.clone(), Some((3, g % 2 == 0)), &mut rng));
        if !with_empty {
            inputs.push(mk("fqgz2", "fastq.gz", Layout { fastq: true, ..plain.clone() }, Some((2, false)), &mut rng));
        }
        let mut first: Option<String> = None;
        for (label, path) in &inputs {
            for (pname, wp) in [("mmap", WPath::Mmap), ("batch", WPath::Batch)] {
                let threads = 1 + rng.below(16) as usize;
                let mem = *rng.pick(&[1usize, 7, 64, 1 << 32]);
                let out = format!("{}/paths_out.txt", dir);
                let _ = std::fs::remove_file(&out);
                let res = std::panic::catch_unwind(|| if (g + threads) % 3 == 0 { run_oligo_reused(path, &out, k, true, wp, threads, delim, false, Some(mem)) } else { run_oligo(path, &out, k, true, wp, threads, delim, false, Some(mem)) });
                let data = std::fs::read(&out).unwrap_or_default();
                let lines = data.iter().filter(|&&b| b == b'\n').count();
                let d = if matches!(res, Ok(Ok(()))) { fnv(&data) } else { "failed".to_string() };
                if first.is_none() {
                    first = Some(d.clone());
                }
                println!(
                    "{}",
                    json!({"ev":"same","group":g,"cfg":format!("{}-{}-t{}-m{}", label, pname, threads, mem),"digest":d,"first":first,"lines":lines,"n":n,"hdr":0})
                );
            }
        }
        // header: exactly one extra first line, the rest unchanged (both writers)
        for (pname, wp) in [("mmap", WPath::Mmap), ("batch", WPath::Batch)] {
            let out = format!("{}/paths_out.txt", dir);
            let _ = std::fs::remove_file(&out);
            let res = std::panic::catch_unwind(|| if g % 2 == 0 { run_oligo_reused(&inputs[0].1, &out, k, true, wp, 3, delim, true, None) } else { run_oligo(&inputs[0].1, &out, k, true, wp, 3, delim, true, None) });
            let data = std::fs::read(&out).unwrap_or_default();
            let lines = data.iter().filter(|&&b| b == b'\n').count();
            let body: &[u8] = match data.iter().position(|&b| b == b'\n') {
                Some(p) => &data[p + 1..],
                None => &[],
            };
            let d = if matches!(res, Ok(Ok(()))) { fnv(body) } else { "failed".to_string() };
            println!(
                "{}",
                json!({"ev":"same","group":g,"cfg":format!("header-{}", pname),"digest":d,"first":first,"lines":lines,"n":n,"hdr":1})
            );
        }
        for (_, p) in &inputs {
            let _ = std::fs::remove_file(p);
        }
    }
    println!("{}", json!({"ev":"eof"}));
}

fn sorted_lines_digest(data: &[u8], m2s: bool) -> String {
    let text = String::from_utf8_lossy(data).to_string();
    let mut lines: Vec<String> = text
        .split('\n')
        .map(|l| {
            if m2s {
                // the items inside an m2s line are a multiset
                match l.split_once('\t') {
                    Some((k, rest)) => {
                        let inner = rest.trim().trim_start_matches('[').trim_end_matches(']');
                        let mut items: Vec<&str> = inner.split("), (").map(|x| x.trim_start_matches('(').trim_end_matches(')')).collect();
                        items.sort();
                        format!("{}\t{}", k, items.join("|"))
                    }
                    None => l.to_string(),
                }
            } else {
                l.to_string()
            }
        })
        .collect();
    lines.sort();
    fnv(lines.join("\n").as_bytes())
}

/// trace tinv <seed> <dir> <nrec>: thread-count invariance on LARGER inputs than the validated traces can hold (megabytes of
/// output, thousands of records, many shared k-mers / minimisers): the result with 1 thread is compared with the results on
/// 2..16 threads - bytes for ordered outputs, sorted line sets for unordered ones. The 1-thread run is sequential code whose
/// behaviour the small validated traces and tables pin down; equality across thread counts is what the properties state.
pub fn tinv(seed: u64, dir: &str, nrec: usize) {
    use counter::CountComputer;
    let mut rng = Rng::new(seed);
    // records in groups of identical and near-identical sequences, some shorter than k / m
    let mut seqs: Vec<Vec<u8>> = Vec::new();
    while seqs.len() < nrec {
        let len = match rng.below(10) {
            0 => rng.below(6) as usize,
            _ => rng.range(40, 400) as usize,
        };
        let s = gen_seq(&mut rng, len, false);
        let s: Vec<u8> = s.iter().map(|&b| if b == b'>' || b == b'@' || b == b'+' { b'N' } else { b }).collect();
        for _ in 0..(1 + rng.below(4)) {
            seqs.push(s.clone());
        }
    }
    let inp = format!("{}/tinv.fa", dir);
    write_fasta(&inp, &seqs);
    let out = format!("{}/tinv.out", dir);
    let threads = [1usize, 2, 5, 16];
    let emit = |what: &str, t: usize, a: &str, b: &str| {
        println!("{}", json!({"ev":"eq","what":format!("{} threads 1 vs {}", what, t),"a":a,"b":b}));
    };
    // oligo, both writers
    for (name, wp) in [("oligo-mmap", WPath::Mmap), ("oligo-batch", WPath::Batch)] {
        let mut first = String::new();
        for &t in &threads {
            let _ = std::fs::remove_file(&out);
            let r = std::panic::catch_unwind(|| run_oligo(&inp, &out, 3, true, wp, t, ",", true, Some(50_000)));
            let d = if matches!(r, Ok(Ok(()))) { fnv(&std::fs::read(&out).unwrap_or_default()) } else { "failed".into() };
            if t == 1 { first = d.clone(); } else { emit(name, t, &first, &d); }
        }
    }
    // minimiser listings
    for (name, m2s) in [("min-s2m", false), ("min-m2s", true)] {
        let mut first = String::new();
        for &t in &threads {
            let _ = std::fs::remove_file(&out);
            let r = std::panic::catch_unwind(|| {
                if m2s { misc::minimisers::bin_sequences(12, 7, &inp, &out, t) } else { misc::minimisers::seq_to_min(12, 7, &inp, &out, t) }
            });
            let d = if r.is_ok() { sorted_lines_digest(&std::fs::read(&out).unwrap_or_default(), m2s) } else { "failed".into() };
            if t == 1 { first = d.clone(); } else { emit(name, t, &first, &d); }
        }
    }
    // listings whose single lines exceed a megabyte: six records of 250 000 bases (tens of thousands of runs each) written by
    // several workers at once - a line is one write under the lock, however long it is
    {
        // (between them short reads: a long line and short lines meet at the writer)
        let mut big: Vec<Vec<u8>> = Vec::new();
        for j in 0..6 {
            big.push((0..250_000 + j * 50_000).map(|_| *rng.pick(b"ACGT")).collect());
            for _ in 0..40 {
                big.push((0..rng.range(20, 120)).map(|_| *rng.pick(b"ACGT")).collect());
            }
        }
        let binp = format!("{}/tinv_big.fa", dir);
        write_fasta(&binp, &big);
        for (name, m2s) in [("min-s2m long lines", false), ("min-m2s long lines", true)] {
            let mut first = String::new();
            for &t in &[1usize, 3, 6, 16] {
                let _ = std::fs::remove_file(&out);
                let r = std::panic::catch_unwind(|| {
                    if m2s { misc::minimisers::bin_sequences(8, 7, &binp, &out, t) } else { misc::minimisers::seq_to_min(8, 7, &binp, &out, t) }
                });
                let d = if r.is_ok() { sorted_lines_digest(&std::fs::read(&out).unwrap_or_default(), m2s) } else { "failed".into() };
                if t == 1 { first = d.clone(); } else { emit(name, t, &first, &d); }
            }
        }
        let _ = std::fs::remove_file(&binp);
    }
    // counter: several chunks, deleting merge
    {
        let mut first = String::new();
        for &t in &threads {
            let od = format!("{}/tinv_ctr", dir);
            let _ = std::fs::remove_dir_all(&od);
            std::fs::create_dir_all(&od).unwrap();
            let r = std::panic::catch_unwind(|| {
                let mut c = CountComputer::new(inp.clone(), od.clone(), 11);
                c.set_threads(t);
                c.set_max_memory(crate::ctrrun::mem_for_limit(20_000));
                c.count();
                c.merge(true);
            });
            let d = if r.is_ok() {
                let left = crate::ctrrun::list_temps(&od).len();
                format!("{}+{}", sorted_lines_digest(&std::fs::read(format!("{}/kmers.counts", od)).unwrap_or_default(), false), left)
            } else { "failed".into() };
            if t == 1 { first = d.clone(); } else { emit("ctr", t, &first, &d); }
        }
    }
    println!("{}", json!({"ev":"eof"}));
}

//! B2: run the real code and write one ndjson event per specification action.
use crate::gen::*;
use crate::util::*;
use kmer::kmer::KmerGenerator;
use kmer::kmer_minimisers::KmerMinimiserGenerator;
use kmer::minimiser::MinimiserGenerator;
use serde_json::Value;
use serde_json::json;

const K_FOCUS: [usize; 8] = [1, 2, 15, 16, 17, 30, 31, 31];

pub fn kmer_run(bytes: &[u8], k: usize) {
    println!("{}", json!({"ev":"kinit","k":k,"bytes":bytes}));
    let mut g = KmerGenerator::new(bytes, k);
    loop {
        let item = g.next();
        let (pos, len, fv, rv) = g.verif_state();
        match item {
            Some((f, r)) => {
                // the returned pair and the registers are the same words; log the returned ones
                // and make a disagreement visible through `len` = usize::MAX (never a model value)
                let len = if (f, r) == (fv, rv) { len as i64 } else { -1 };
                println!("{}", json!({"ev":"kemit","f":digits32(f),"r":digits32(r),"pos":pos,"len":len}));
            }
            None => {
                println!("{}", json!({"ev":"kend","f":digits32(fv),"r":digits32(rv),"pos":pos,"len":len}));
                break;
            }
        }
    }
}

/// trace kmer <seed> <runs> <maxlen>
pub fn kmer(seed: u64, runs: usize, maxlen: usize) {
    let mut rng = Rng::new(seed);
    for i in 0..runs {
        let k = if i % 2 == 0 { 1 + (i / 2) % 31 } else { *rng.pick(&K_FOCUS) };
        let n = match rng.below(6) {
            0 => rng.below(k as u64 + 2) as usize, // around/below k
            1 => k + rng.below(3) as usize,
            _ => rng.range(0, maxlen as u64) as usize,
        };
        let bytes = gen_seq(&mut rng, n, true);
        kmer_run(&bytes, k);
    }
    println!("{}", json!({"ev":"eof"}));
}

/// long sequence: positions beyond 2^16. dense: clean bases with an ambiguous byte every few thousand. Otherwise: 1500 clean
/// bases; ambiguous bytes (with clean islands too short for a window) up to position 300 000 - hundreds of thousands of
/// consecutive calls of the loop body without an emission; a tandem repeat of period 2 for 4500 bases (thousands of
/// consecutive windows with one minimiser); 1500 random clean bases
fn long_seq(rng: &mut Rng, n: usize, dense: bool) -> Vec<u8> {
    if dense {
        return (0..n).map(|x| if x % 4099 == 4098 || x == 65_537 { *rng.pick(b"N-*.") } else { *rng.pick(b"ACGTacgtUu") }).collect();
    }
    // period 2: every window of every (w, m) used here holds both rotations, so all 4500 windows share one minimiser
    let unit: Vec<u8> = rng.pick(&[b"AC", b"AG", b"CT", b"GA", b"TC", b"CA"]).to_vec();
    // (n of 450 000 or more: the repeat is 140 000 bases long - more than 2^17 windows with one minimiser)
    let rep = if n >= 450_000 { 140_000 } else { 4500 };
    let gap_end = n.saturating_sub(rep + 1500).max(1500);
    (0..n)
        .map(|x| {
            if x < 1500 {
                *rng.pick(b"ACGTacgtUu")
            } else if x < gap_end {
                if x % 997 > 5 { *rng.pick(b"N-*.") } else { *rng.pick(b"ACGT") }
            } else if x < gap_end + rep {
                unit[x % 2]
            } else {
                *rng.pick(b"ACGTacgtUu")
            }
        })
        .collect()
}

/// trace minmid <seed> <kv>: one run over up to ~2500 bases with (w, m) drawn from a wide set: m anywhere in 1..31, the number of
/// m-mers per window (w - m + 1) at and beside powers of two up to 257 (up to w = 31 for the k-mer variant)
pub fn min_mid(seed: u64, kv: bool) {
    let mut rng = Rng::new(seed);
    let m = 1 + rng.below(31) as usize;
    let w = if kv {
        rng.range(m as u64, 31) as usize
    } else {
        m + *rng.pick(&[1usize, 2, 3, 5, 8, 16, 17, 32, 33, 64, 65, 100, 128, 129, 256, 257]) - 1
    };
    let windows = 2500usize;
    let n = windows + w;
    let style = rng.below(3);
    let unit: Vec<u8> = (0..(2 + rng.below(9))).map(|_| *rng.pick(b"ACGT")).collect();
    let s: Vec<u8> = (0..n)
        .map(|x| {
            if x % 1013 == 1012 {
                b'N'
            } else if style == 0 || (style == 1 && x % 300 < 150) {
                unit[x % unit.len()]           // tandem repeat: ties and palindromic m-mers abound
            } else {
                *rng.pick(b"ACGTacgu")
            }
        })
        .collect();
    if kv {
        kmermin_run(&s, w, m);
    } else {
        minimiser_run(&s, w, m);
    }
    println!("{}", json!({"ev":"eof"}));
}

/// trace minsame <seed> <len>: the plain and the k-mer-reporting iterator on the same long input (w <= 31): same runs
/// (C18, first clause), as an eq event on the two run lists; the plain iterator's runs on such inputs are judged by LongTrace
pub fn min_same(seed: u64, len: usize) {
    let mut rng = Rng::new(seed);
    for (w, m) in [(21usize, 9usize), (12, 7), (31, 28), (9, 8), (31, 5)] {
        let s = long_seq(&mut rng, len, false);
        let plain: Vec<(u64, usize, usize)> = MinimiserGenerator::new(&s, w, m).collect();
        let kv: Vec<(u64, usize, usize)> = KmerMinimiserGenerator::new(&s, w, m).map(|(v, a, b, _)| (v, a, b)).collect();
        let show = |r: &Vec<(u64, usize, usize)>| {
            let longest = r.iter().map(|x| x.2 - x.1).max().unwrap_or(0);
            format!("{} runs, longest span {}, fnv {}", r.len(), longest, crate::paths::fnv(format!("{:?}", r).as_bytes()))
        };
        println!("{}", json!({"ev":"eq","what":format!("plain = with-k-mers, runs on {} bases, w={} m={}", len, w, m),"a":show(&plain),"b":show(&kv)}));
    }
    // the raw bytes 0x00-0x03 (which the lookup table inherited from minimap2 reads as pre-encoded bases) are left
    // unspecified by the other properties, but the two iterators must still agree on them
    for i in 0..200usize {
        let (w, m) = [(4usize, 2usize), (6, 3), (9, 9), (12, 5), (31, 7)][i % 5];
        let n = rng.range(0, 80) as usize;
        let s: Vec<u8> = (0..n).map(|_| if rng.below(5) == 0 { rng.below(4) as u8 } else { *rng.pick(b"ACGTacgtN") }).collect();
        let plain: Vec<(u64, usize, usize)> = MinimiserGenerator::new(&s, w, m).collect();
        let kv: Vec<(u64, usize, usize)> = KmerMinimiserGenerator::new(&s, w, m).map(|(v, a, b, _)| (v, a, b)).collect();
        println!("{}", json!({"ev":"eq","what":format!("plain = with-k-mers, runs on {:?}, w={} m={}", s, w, m),"a":format!("{:?}", plain),"b":format!("{:?}", kv)}));
    }
    println!("{}", json!({"ev":"eof"}));
}

/// trace minwide <seed>: a window of more than 2^16 m-mers (w = m + 65 600 - 1, m = 5) over 66 500 bases of C/G background
/// with one small m-mer near the start and another one more than 2^16 positions later: when the first leaves the window the
/// new leftmost minimum sits in a slot beyond 65 536
pub fn min_wide(seed: u64) {
    let mut rng = Rng::new(seed);
    let m = 5usize;
    let w = m + 65_600 - 1;
    let n = w + 900;
    let mut s: Vec<u8> = (0..n).map(|_| *rng.pick(b"CG")).collect();
    let p0 = 150 + rng.below(100) as usize;
    s[p0..p0 + 6].copy_from_slice(b"AAAAAT");       // (the m-mer after it, AAAAT, is larger than the far one, AAAAG - whose code is even)
    let p1 = p0 + 65_560 + rng.below(30) as usize;
    s[p1..p1 + 5].copy_from_slice(b"AAAAG");
    minimiser_run(&s, w, m);
    println!("{}", json!({"ev":"eof"}));
}

/// clean stretches separated by gaps of ONE repeated ambiguous byte, every gap length 0..=130 once
fn gap_seq(rng: &mut Rng, clean: usize) -> Vec<u8> {
    let b = *rng.pick(b"N-*.nX");
    let mut s = Vec::new();
    for g in 0..=130usize {
        for _ in 0..(clean + (g % 3)) {
            s.push(*rng.pick(b"ACGTacgu"));
        }
        for _ in 0..g {
            s.push(b);
        }
    }
    s
}

/// trace gaps <seed> <which>: which = kmer | minimiser | kmermin: one run over gap_seq
pub fn gaps(seed: u64, which: &str) {
    let mut rng = Rng::new(seed);
    match which {
        "kmer" => {
            let k = *rng.pick(&[2usize, 5, 17, 31]);
            let s = gap_seq(&mut rng, k + 1);
            kmer_run(&s, k);
        }
        _ => {
            let (w, m) = *rng.pick(&[(8usize, 5usize), (12, 7), (5, 5), (31, 9)]);
            let s = gap_seq(&mut rng, w + 1);
            if which == "kmermin" {
                kmermin_run(&s, w, m);
            } else {
                minimiser_run(&s, w, m);
            }
        }
    }
    println!("{}", json!({"ev":"eof"}));
}

/// trace iterapi <seed> <runs>: the provided methods of Iterator on partially consumed iterators: count(), last(), nth(n) after
/// `skip` calls of next(); judged against the declarative item lists
pub fn iterapi(seed: u64, runs: usize) {
    let mut rng = Rng::new(seed);
    for i in 0..runs {
        let n = rng.range(0, 90) as usize;
        let bytes = gen_seq(&mut rng, n, false);
        let skip = rng.below(6) as usize;
        let nth = rng.below(5) as usize;
        match i % 3 {
            0 => {
                let k = *rng.pick(&[1usize, 2, 3, 5, 9, 16]);
                let mk = || { let mut g = KmerGenerator::new(&bytes, k); for _ in 0..skip { g.next(); } g };
                let item = |x: Option<(u64, u64)>| x.map(|(f, r)| json!([digits32(f), digits32(r)])).unwrap_or(json!([]));
                println!("{}", json!({"ev":"iterapi","kind":"kmer","k":k,"w":0,"m":0,"bytes":bytes,"skip":skip,"nth":nth,
                    "count":mk().count(),"last":item(mk().last()),"nthitem":item(mk().nth(nth))}));
            }
            1 => {
                let (w, m) = *rng.pick(&[(4usize, 2usize), (6, 3), (9, 9), (12, 5)]);
                let mk = || { let mut g = MinimiserGenerator::new(&bytes, w, m); for _ in 0..skip { g.next(); } g };
                let item = |x: Option<(u64, usize, usize)>| x.map(|(v, s, e)| json!([digits32(v), s, e])).unwrap_or(json!([]));
                println!("{}", json!({"ev":"iterapi","kind":"min","k":0,"w":w,"m":m,"bytes":bytes,"skip":skip,"nth":nth,
                    "count":mk().count(),"last":item(mk().last()),"nthitem":item(mk().nth(nth))}));
            }
            _ => {
                let (w, m) = *rng.pick(&[(4usize, 2usize), (6, 3), (9, 9), (12, 5)]);
                let mk = || { let mut g = KmerMinimiserGenerator::new(&bytes, w, m); for _ in 0..skip { g.next(); } g };
                let item = |x: Option<(u64, usize, usize, Vec<u64>)>| x.map(|(v, s, e, _)| json!([digits32(v), s, e])).unwrap_or(json!([]));
                println!("{}", json!({"ev":"iterapi","kind":"min","k":0,"w":w,"m":m,"bytes":bytes,"skip":skip,"nth":nth,
                    "count":mk().count(),"last":item(mk().last()),"nthitem":item(mk().nth(nth))}));
            }
        }
    }
    println!("{}", json!({"ev":"eof"}));
}

/// trace kmerlong <seed> <len> <dense>: one run of the k-mer iterator over a sequence of <len> bases (positions beyond 2^16)
pub fn kmer_long(seed: u64, len: usize, dense: bool) {
    let mut rng = Rng::new(seed);
    let k = *rng.pick(&[3usize, 5, 16, 31]);
    let s = long_seq(&mut rng, len, dense);
    kmer_run(&s, k);
    println!("{}", json!({"ev":"eof"}));
}

/// trace minlong <seed> <len> <kv> <dense>: one run of a minimiser iterator over a sequence of <len> bases
pub fn min_long(seed: u64, len: usize, kv: bool, dense: bool) {
    let mut rng = Rng::new(seed);
    let (w, m) = *rng.pick(&[(12usize, 7usize), (20, 5), (31, 28), (9, 8)]);
    let s = long_seq(&mut rng, len, dense);
    if kv {
        kmermin_run(&s, w, m);
    } else {
        minimiser_run(&s, w, m);
    }
    println!("{}", json!({"ev":"eof"}));
}

/// trace kmerbytes: every byte 4..255 alone and between clean bases, k = 1, 2 (the class table)
pub fn kmer_bytes() {
    for k in 1..=2usize {
        for b in 4..=255u8 {
            for ctx in [vec![b], vec![b'A', b], vec![b, b'C'], vec![b'G', b, b'T'], vec![b'a', b'c', b, b, b'g', b't']] {
                kmer_run(&ctx, k);
            }
        }
    }
    println!("{}", json!({"ev":"eof"}));
}

fn mstate(pos: usize, ml: usize, buff: &[u64], bpos: usize, active: u64, wstart: usize) -> serde_json::Map<String, Value> {
    let mut m = serde_json::Map::new();
    m.insert("pos".into(), json!(pos));
    m.insert("ml".into(), json!(ml));
    m.insert("bl".into(), json!(buff.len()));
    m.insert("bpos".into(), json!(bpos));
    m.insert("open".into(), json!(if active == u64::MAX { 0 } else { 1 }));
    m.insert("active".into(), json!(digits32(active)));
    m.insert("wstart".into(), json!(wstart));
    m
}

pub fn minimiser_run(bytes: &[u8], w: usize, m: usize) {
    println!("{}", json!({"ev":"minit","w":w,"m":m,"kv":0,"bytes":bytes}));
    let mut g = MinimiserGenerator::new(bytes, w, m);
    loop {
        let item = g.next();
        let (pos, ml, buff, bpos, active, wstart, mf, mr) = g.verif_state();
        let mut st = mstate(pos, ml, &buff, bpos, active, wstart);
        st.insert("mf".into(), json!(digits32(mf)));
        st.insert("mr".into(), json!(digits32(mr)));
        match item {
            Some((v, s, e)) => println!(
                "{}",
                json!({"ev":"mrun","open": if v == u64::MAX {0} else {1},"v":digits32(v),"s":s,"e":e,"kmers":[],"st":st})
            ),
            None => {
                println!("{}", json!({"ev":"mend","st":st}));
                break;
            }
        }
    }
}

pub fn kmermin_run(bytes: &[u8], w: usize, m: usize) {
    println!("{}", json!({"ev":"minit","w":w,"m":m,"kv":1,"bytes":bytes}));
    let mut g = KmerMinimiserGenerator::new(bytes, w, m);
    loop {
        let item = g.next();
        let (pos, ml, buff, bpos, active, wstart, kl, kf, kr) = g.verif_state();
        let mut st = mstate(pos, ml, &buff, bpos, active, wstart);
        st.insert("kl".into(), json!(kl));
        st.insert("kf".into(), json!(digits32(kf)));
        st.insert("kr".into(), json!(digits32(kr)));
        match item {
            Some((v, s, e, ks)) => {
                let kd: Vec<Vec<u8>> = ks.iter().map(|&k| digits32(k)).collect();
                println!(
                    "{}",
                    json!({"ev":"mrun","open": if v == u64::MAX {0} else {1},"v":digits32(v),"s":s,"e":e,"kmers":kd,"st":st})
                )
            }
            None => {
                println!("{}", json!({"ev":"mend","st":st}));
                break;
            }
        }
    }
}

fn pick_wm(rng: &mut Rng, i: usize, kv: bool) -> (usize, usize) {
    let m = if i % 3 == 0 { 1 + (i / 3) % 31 } else { *rng.pick(&[1usize, 2, 3, 5, 7, 15, 16, 28, 30, 31]) };
    let maxw = if kv { 31 } else { m + 60 };
    let w = match rng.below(5) {
        0 => m,
        1 => (m + 1).min(maxw),
        2 => (m + rng.range(0, 8) as usize).min(maxw),
        _ => rng.range(m as u64, maxw as u64) as usize,
    };
    (w, m)
}

/// trace minimiser|kmermin <seed> <runs> <maxlen>
pub fn minimiser(seed: u64, runs: usize, maxlen: usize, kv: bool) {
    let mut rng = Rng::new(seed);
    for i in 0..runs {
        let (mut w, m) = pick_wm(&mut rng, i, kv);
        // one run per trace with a very wide window (ring of several hundred m-mers; the CLI accepts any w)
        let wide = !kv && i == 7;
        if wide {
            w = m + 280 + rng.below(60) as usize;
        }
        let n = if wide { w + 150 + rng.below(200) as usize } else { 0 };
        let n = if wide { n } else { match rng.below(8) {
            0 => rng.below(w as u64 + 2) as usize,
            1 => w.saturating_sub(1),
            2 => w,
            3 => w + 1,
            _ => rng.range(0, maxlen as u64) as usize,
        } };
        let mut bytes = gen_seq(&mut rng, n, true);
        // trailing clean segment of length w-1, w or w+1 after an ambiguous byte
        if rng.chance(1, 6) {
            bytes.push(b'N');
            let t = (w + rng.below(3) as usize).saturating_sub(1);
            for _ in 0..t {
                bytes.push(*rng.pick(b"ACGT"));
            }
        }
        if kv {
            kmermin_run(&bytes, w, m);
        } else {
            minimiser_run(&bytes, w, m);
        }
    }
    println!("{}", json!({"ev":"eof"}));
}

fn rc_event(x: u64, k: usize) {
    let rc = KmerGenerator::rev_comp(x, k);
    let txt: Vec<u8> = kmer::numeric_to_kmer(x, k).into_bytes();
    println!("{}", json!({"ev":"rc","k":k,"x":digits32(x),"rc":digits32(rc),"txt":txt}));
}

/// trace rc <seed> <per_k>: sampled codes for every k in 1..=31: extremes, palindromes, single-digit perturbations, random
pub fn rc(seed: u64, per_k: usize) {
    let mut rng = Rng::new(seed);
    for k in 1..=31usize {
        let top = if k == 32 { u64::MAX } else { (1u64 << (2 * k)) - 1 };
        rc_event(0, k);
        rc_event(top, k);
        rc_event(1, k);
        rc_event(top - 1, k);
        for _ in 0..per_k {
            let x = rng.next() & top;
            rc_event(x, k);
            // single digit perturbation
            let p = rng.below(k as u64);
            rc_event(x ^ (1 + rng.below(3)) << (2 * p), k);
            // reverse-complement palindrome (even k): left half random, right half its reverse complement
            if k % 2 == 0 {
                let h = k / 2;
                let left = rng.next() & ((1u64 << (2 * h)) - 1);
                let pal = (left << (2 * h)) | KmerGenerator::rev_comp(left, h);
                rc_event(pal, k);
            }
        }
    }
    println!("{}", json!({"ev":"eof"}));
}

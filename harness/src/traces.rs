//! B2: run the real code and write one ndjson event per specification action.
use crate::gen::*;
use crate::util::*;
use kmer::kmer::KmerGenerator;
use serde_json::json;

const K_FOCUS: [usize; 8] = [1, 2, 15, 16, 17, 30, 31, 31];

pub fn kmer_run(bytes: &[u8], k: usize) {
    println!("{}", json!({"ev":"kinit","k":k,"bytes":bytes}));
    let mut g = KmerGenerator::new(bytes, k);
    loop {
        let item = g.next();
        let (pos, len, fv, rv) = g.verif_state();
        match item {
            Some((f, r)) => {
                // the returned pair and the registers are the same words; log the returned ones
                // and make a disagreement visible through `len` = usize::MAX (never a model value)
                let len = if (f, r) == (fv, rv) { len as i64 } else { -1 };
                println!("{}", json!({"ev":"kemit","f":digits32(f),"r":digits32(r),"pos":pos,"len":len}));
            }
            None => {
                println!("{}", json!({"ev":"kend","f":digits32(fv),"r":digits32(rv),"pos":pos,"len":len}));
                break;
            }
        }
    }
}

/// trace kmer <seed> <runs> <maxlen>
pub fn kmer(seed: u64, runs: usize, maxlen: usize) {
    let mut rng = Rng::new(seed);
    for i in 0..runs {
        let k = if i % 2 == 0 { 1 + (i / 2) % 31 } else { *rng.pick(&K_FOCUS) };
        let n = match rng.below(6) {
            0 => rng.below(k as u64 + 2) as usize, // around/below k
            1 => k + rng.below(3) as usize,
            _ => rng.range(0, maxlen as u64) as usize,
        };
        let bytes = gen_seq(&mut rng, n, true);
        kmer_run(&bytes, k);
    }
    println!("{}", json!({"ev":"eof"}));
}

/// trace kmerbytes: every byte 4..255 alone and between clean bases, k = 1, 2 (the class table)
pub fn kmer_bytes() {
    for k in 1..=2usize {
        for b in 4..=255u8 {
            for ctx in [vec![b], vec![b'A', b], vec![b, b'C'], vec![b'G', b, b'T'], vec![b'a', b'c', b, b, b'g', b't']] {
                kmer_run(&ctx, k);
            }
        }
    }
    println!("{}", json!({"ev":"eof"}));
}

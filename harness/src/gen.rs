//! Seeded input generators (bytes). They only produce inputs; nothing here judges outputs.
use crate::util::*;

/// nucleotide-ish byte string of length `n` in one of several styles
pub fn gen_seq(rng: &mut Rng, n: usize, anybyte: bool) -> Vec<u8> {
    let style = rng.below(8);
    let mut cls: Vec<u8> = Vec::with_capacity(n);
    match style {
        0 => {
            // uniform
            for _ in 0..n {
                cls.push(rng.below(4) as u8);
            }
        }
        1 => {
            // homopolymer stretches
            while cls.len() < n {
                let c = rng.below(4) as u8;
                let run = rng.range(1, 12) as usize;
                for _ in 0..run {
                    if cls.len() < n {
                        cls.push(c);
                    }
                }
            }
        }
        2 | 3 => {
            // short tandem repeats (period 1..4) with occasional mutation
            let p = rng.range(1, 4) as usize;
            let unit: Vec<u8> = (0..p).map(|_| rng.below(4) as u8).collect();
            for i in 0..n {
                if rng.chance(1, 25) {
                    cls.push(rng.below(4) as u8);
                } else {
                    cls.push(unit[i % p]);
                }
            }
        }
        4 => {
            // palindromic: s followed by its reverse complement
            let half = n / 2;
            for _ in 0..half {
                cls.push(rng.below(4) as u8);
            }
            for i in (0..half).rev() {
                let c = cls[i];
                cls.push(3 - c);
            }
            while cls.len() < n {
                cls.push(rng.below(4) as u8);
            }
        }
        5 => {
            // two-letter alphabet (many ties)
            let a = rng.below(4) as u8;
            let b = rng.below(4) as u8;
            for _ in 0..n {
                cls.push(if rng.chance(1, 2) { a } else { b });
            }
        }
        _ => {
            for _ in 0..n {
                cls.push(rng.below(4) as u8);
            }
        }
    }
    // ambiguous bytes: none / sparse / runs / at the ends
    match rng.below(6) {
        0 | 1 => {}
        2 => {
            for c in cls.iter_mut() {
                if rng.chance(1, 20) {
                    *c = 4;
                }
            }
        }
        3 => {
            let runs = rng.range(1, 3);
            for _ in 0..runs {
                if n > 0 {
                    let s = rng.below(n as u64) as usize;
                    let l = rng.range(1, 5) as usize;
                    for c in cls.iter_mut().skip(s).take(l) {
                        *c = 4;
                    }
                }
            }
        }
        4 => {
            if n > 0 {
                cls[0] = 4;
                if rng.chance(1, 2) {
                    cls[n - 1] = 4;
                }
            }
        }
        _ => {
            if n > 0 {
                cls[n - 1] = 4;
            }
        }
    }
    render(&cls, rng, !anybyte)
}

#!/usr/bin/env python3
"""Drives the Python binding built from /repo's working tree and writes the same ndjson events as the Rust harness.
usage: driver.py <moddir> <command> [args...]   (events on stdout)"""
import gc, json, sys

moddir = sys.argv[1]
sys.path.insert(0, moddir)
import pykmertools as pk


def emit(o):
    sys.stdout.write(json.dumps(o, separators=(",", ":")) + "\n")


def d32(x):
    return [(x >> (2 * (31 - i))) & 3 for i in range(32)]


def header(kmin, kmax):
    for k in range(kmin, kmax + 1):
        cols = pk.OligoComputer(k).get_header()
        emit({"ev": "header", "k": k, "src": "python", "cols": [list(c.encode()) for c in cols]})
    emit({"ev": "eof"})


def main():
    cmd = sys.argv[2]
    a = sys.argv[3:]
    if cmd == "header":
        header(int(a[0]), int(a[1]))
    else:
        raise SystemExit("unknown command " + cmd)


if __name__ == "__main__":
    main()

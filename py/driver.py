#!/usr/bin/env python3
"""Drives the Python binding built from /repo's working tree and writes the same ndjson events as the Rust harness,
so that the same TLA+ trace specifications judge both.  usage: driver.py <moddir> <command> [args...]  (events on stdout).
Nothing here judges an output; a Python exception is recorded as an event, a crash of the interpreter is the exit status."""
import gc, json, random, sys

moddir = sys.argv[1]
sys.path.insert(0, moddir)
import pykmertools as pk


def emit(o):
    sys.stdout.write(json.dumps(o, separators=(",", ":")) + "\n")


def d32(x):
    return [(x >> (2 * (31 - i))) & 3 for i in range(32)]


def read_fasta(path):
    seqs = []
    for line in open(path, "rb").read().split(b"\n"):
        if line.startswith(b">"):
            seqs.append(b"")
        elif seqs:
            seqs[-1] += line.rstrip(b"\r")
    return seqs


# ------------------------------------------------------------------ string generators
NUC = "ACGTacgtUu"
OTHER_ASCII = "NnRYKMSWBDHVX-*. 0123456789"
# non-ASCII characters, including ones whose code point modulo 256 is a nucleotide letter (U+0141 -> 'A', U+0143 -> 'C',
# U+0147 -> 'G', U+0154 -> 'T', U+0155 -> 'U', U+0161 -> 'a', ...): a binding that narrowed characters instead of reading
# UTF-8 bytes would take them for bases
UNI = ["é", "α", "中", "\U0001F9EC", "А", "Å", "☃", "퟿", "Ā",
       "\u0141", "\u0143", "\u0147", "\u0154", "\u0155", "\u0161", "\u0163", "\u0167", "\u0174", "\u0175", "\U00010141", "\u0241"]


def gen_string(rng, n):
    style = rng.randrange(6)
    out = []
    if style == 0:
        out = [rng.choice("ACGT") for _ in range(n)]
    elif style == 1:
        out = [rng.choice(NUC) for _ in range(n)]
    elif style == 2:
        unit = [rng.choice("ACGT") for _ in range(rng.randint(1, 3))]
        out = [unit[i % len(unit)] for i in range(n)]
    elif style == 3:
        out = [rng.choice(NUC) if rng.random() > 0.08 else rng.choice(OTHER_ASCII) for _ in range(n)]
    elif style == 4:
        out = [rng.choice(NUC) if rng.random() > 0.1 else rng.choice(UNI) for _ in range(n)]
    else:
        out = [rng.choice(NUC + OTHER_ASCII) if rng.random() > 0.3 else rng.choice(UNI) for _ in range(n)]
    return "".join(out)


WS = [" ", "\n", "\t", "\r\n", "\u00a0", "\u3000", "  "]


def edged(rng, text):
    """sometimes put white space (ASCII and non-ASCII) at the very beginning / end: they are ambiguous bytes like any other"""
    r = rng.random()
    if r < 0.15:
        return rng.choice(WS) + text
    if r < 0.25:
        return text + rng.choice(WS)
    if r < 0.30:
        return rng.choice(WS) + text + rng.choice(WS)
    return text


def churn(rng, n):
    """allocate and free strings of a similar size so that a dangling buffer would be overwritten"""
    junk = [("Z" * n) + str(i) for i in range(64)]
    junk2 = [bytes(n + 40) for _ in range(64)]
    del junk, junk2
    gc.collect()


# ------------------------------------------------------------------ commands
def header(kmin, kmax):
    for k in range(kmin, kmax + 1):
        cols = pk.OligoComputer(k).get_header()
        emit({"ev": "header", "k": k, "src": "python", "cols": [list(c.encode()) for c in cols]})
    # several computers alive at once, asked in another order than they were made, and asked twice
    ks = [k for k in (5, 2, 7, 3, 5, 2) if kmin <= k <= kmax]
    objs = [(k, pk.OligoComputer(k)) for k in ks]
    for k, o in reversed(objs):
        for _ in range(2):
            emit({"ev": "header", "k": k, "src": "python-interleaved", "cols": [list(c.encode()) for c in o.get_header()]})
    emit({"ev": "eof"})


def headertable(kmax):
    """line k = column names of OligoComputer(k).get_header() as letter bytes (for PosMap!HeaderConforms)"""
    for k in range(1, kmax + 1):
        cols = pk.OligoComputer(k).get_header()
        sys.stdout.write(json.dumps([list(c.encode()) for c in cols], separators=(",", ":")) + "\n")


def sparse(vals, norm):
    row = []
    for p, v in enumerate(vals):
        if norm:
            t = format(v, ".6f")
            a, b = t.split(".")
            x = int(a) * 1000000 + int(b)
        else:
            x = int(v) if float(v).is_integer() else -1
        if x != 0:
            row += [p, x]
    return row


def orec(k, norm, text, vals, src):
    emit({"ev": "orec", "src": src, "k": k, "norm": 1 if norm else 0, "bytes": list(text.encode("utf-8")),
          "ncols": len(vals), "row": sparse(vals, norm), "same": 0})


def oligo(fa, kmin, kmax):
    seqs = read_fasta(fa)
    for k in range(kmin, kmax + 1):
        oc = pk.OligoComputer(k)
        for norm in (False, True):
            for s in seqs:
                text = s.decode("latin-1")   # bytes >= 0x80 become 2-byte UTF-8: non-ASCII acts as ambiguous
                orec(k, norm, text, oc.vectorise_one(text, norm), "py")
        # the documented default is the normalised vector (positional, keyword and batch forms)
        for s in seqs[:6]:
            text = s.decode("latin-1")
            orec(k, True, text, oc.vectorise_one(text), "py-default")
            orec(k, False, text, oc.vectorise_one(text, norm=False), "py-keyword")
        for text, vals in zip([s.decode("latin-1") for s in seqs[:6]], oc.vectorise_batch([s.decode("latin-1") for s in seqs[:6]])):
            orec(k, True, text, vals, "py-batch-default")
    emit({"ev": "eof"})


def kmer(seed, runs, maxlen):
    rng = random.Random(seed)
    for i in range(runs):
        k = 1 + (i % 31) if i % 2 == 0 else rng.choice([1, 2, 15, 16, 17, 30, 31])
        n = rng.choice([rng.randint(0, k + 1), k, rng.randint(0, maxlen), rng.randint(0, maxlen)])
        text = edged(rng, gen_string(rng, n))
        emit({"ev": "kinit", "k": k, "bytes": list(text.encode("utf-8")), "src": "py"})
        # build from a temporary, release it, churn the allocator before and between the calls
        it = pk.KmerGenerator("".join([text]), k)
        del text
        churn(rng, n)
        j = 0
        # consumption pattern: plain for loop, or next() a few times and then a for loop (iter() of a started iterator is the
        # iterator itself, it does not start over), or next() only
        pre = [0, 1, 3][i % 3]
        for _ in range(pre):
            item = next(it, None)
            if item is None:
                break
            emit({"ev": "kemit", "f": d32(item[0]), "r": d32(item[1])})
            j += 1
        for f, r in it:
            emit({"ev": "kemit", "f": d32(f), "r": d32(r)})
            j += 1
            if j % 17 == 0:
                churn(rng, n)
        # an exhausted iterator stays exhausted: further next() calls and a second loop yield nothing
        for item in [next(it, None), next(it, None)] + list(it):
            if item is not None:
                emit({"ev": "kemit", "f": d32(item[0]), "r": d32(item[1]), "after_end": 1})
        emit({"ev": "kend"})
        # to_acgt on a few codes
        if i % 5 == 0:
            for x in (0, (1 << (2 * k)) - 1, rng.getrandbits(2 * k)):
                emit({"ev": "kacgt", "k": k, "x": d32(x), "txt": list(it.to_acgt(x).encode())})
    emit({"ev": "eof"})


def minimiser(seed, runs, maxlen):
    rng = random.Random(seed)
    for i in range(runs):
        m = 1 + (i % 31) if i % 3 == 0 else rng.choice([1, 2, 3, 5, 7, 15, 16, 28, 30, 31])
        w = rng.choice([m, m + 1, m + rng.randint(0, 8), rng.randint(m, m + 60)])
        n = rng.choice([rng.randint(0, w + 1), max(w - 1, 0), w, w + 1, rng.randint(0, maxlen), rng.randint(0, maxlen)])
        text = edged(rng, gen_string(rng, n))
        emit({"ev": "minit", "w": w, "m": m, "kv": 0, "bytes": list(text.encode("utf-8")), "src": "py"})
        it = pk.MinimiserGenerator("".join([text]), w, m)
        del text
        churn(rng, n)
        j = 0
        pre = [0, 1, 2][i % 3]
        for _ in range(pre):
            item = next(it, None)
            if item is None:
                break
            v, s, e = item
            emit({"ev": "mrun", "open": 0 if v == (1 << 64) - 1 else 1, "v": d32(v), "s": s, "e": e, "kmers": []})
            j += 1
        for v, s, e in it:
            emit({"ev": "mrun", "open": 0 if v == (1 << 64) - 1 else 1, "v": d32(v), "s": s, "e": e, "kmers": []})
            j += 1
            if j % 7 == 0:
                churn(rng, n)
        for item in [next(it, None), next(it, None)] + list(it):
            if item is not None:
                emit({"ev": "mrun", "open": 1, "v": d32(item[0]), "s": item[1], "e": item[2], "kmers": [], "after_end": 1})
        emit({"ev": "mend"})
        if i % 5 == 0:
            for x in (0, (1 << (2 * m)) - 1, rng.getrandbits(2 * m)):
                emit({"ev": "macgt", "m": m, "x": d32(x), "txt": list(it.to_acgt(x).encode())})
    emit({"ev": "eof"})


def cgr_event(text, size, pts, src):
    b = list(text.encode("utf-8"))
    if pts is None:
        emit({"ev": "cgr", "src": src, "s": size, "bytes": b, "err": 1, "npts": 0, "nexact": 0, "pts": [], "tops": []})
        return
    n = len(pts)
    nex = min(n, 29, 52 - int(size).bit_length())      # exact doubles while size * numerator fits 53 bits
    flat = []
    for i, (x, y) in enumerate(pts[:nex]):
        for v in (x, y):
            t = v * (2.0 ** (i + 2))          # exact: scaling by a power of two
            ti = int(t)
            flat.append(ti // size if (t == ti and ti % size == 0) else -1)
    tops = []
    for (x, y) in pts[nex:]:
        row = []
        for v in (x, y):
            acc = 0
            for _ in range(20):
                v *= 2.0
                if v >= size:
                    acc = acc * 2 + 1
                    v -= size
                else:
                    acc = acc * 2
            row.append(acc)
        tops.append(row)
    # the midpoint rule in double precision, point after point (Python floats are the same doubles)
    corner = {"A": (0.0, 0.0), "C": (0.0, float(size)), "G": (float(size), float(size)), "T": (float(size), 0.0), "U": (float(size), 0.0)}
    prev = (size / 2.0, size / 2.0)
    recur = 0
    for ch, p in zip(text, pts):
        c = corner.get(ch.upper())
        if c is None or ((c[0] + prev[0]) / 2.0, (c[1] + prev[1]) / 2.0) != (p[0], p[1]):
            recur += 1
        prev = p
    emit({"ev": "cgr", "src": src, "s": size, "bytes": b, "err": 0, "npts": n, "nexact": nex, "pts": flat, "tops": tops, "recur": recur})


def cgr(seed, runs, maxlen):
    rng = random.Random(seed)
    sizes = [1, 2, 3, 8, 1000, 1 << 20, 16777217, 1000000007]
    for i in range(runs):
        size = sizes[i % len(sizes)]
        c = pk.CgrComputer(size)
        n = rng.choice([0, 1, 2, rng.randint(0, 60), rng.randint(0, 60), rng.randint(0, maxlen)])
        text = "".join(rng.choice(NUC) for _ in range(n))
        if i % 3 == 2 and n > 0:
            p = rng.choice([0, n - 1, rng.randrange(n)])
            text = text[:p] + rng.choice(OTHER_ASCII + "".join(UNI)) + text[p + 1:]
        try:
            pts = c.vectorise_one(text)
        except ValueError:
            pts = None
        cgr_event(text, size, pts, "py")
    # control characters are not nucleotides either (the k-mer code's lookup table reads 0x00..0x03 as pre-encoded bases; the
    # chaos game has no corner for them)
    for j, ch in enumerate("\x00\x01\x02\x03\x7f\x1b"):
        size = sizes[j % len(sizes)]
        c = pk.CgrComputer(size)
        for text in (ch, "ACG" + ch, ch + "T", "AC" + ch + "GT"):
            try:
                pts = c.vectorise_one(text)
            except ValueError:
                pts = None
            cgr_event(text, size, pts, "py")
        try:
            c.vectorise_batch(["ACGT", "GG" + ch, "TT"])
            emit({"ev": "pyerror", "what": "batch with a control character did not raise"})
        except ValueError:
            cgr_event("GG" + ch, size, None, "py-batch")
    # batches: all clean -> list in argument order; one bad -> ValueError for the whole call
    for bs in (0, 1, 7, 300, 1500):
        size = rng.choice(sizes)
        c = pk.CgrComputer(size)
        seqs = ["".join(rng.choice(NUC) for _ in range(rng.randint(0, 40))) for _ in range(bs)]
        res = c.vectorise_batch(list(seqs))
        emit({"ev": "batchlen", "n": bs, "got": len(res)})
        for s, pts in zip(seqs, res):
            cgr_event(s, size, pts, "py-batch")
        if bs > 0:
            bad = list(seqs)
            j = bs - 1 if bs in (7, 1500) else rng.randrange(bs)      # also: the bad sequence as the last element
            bad[j] = bad[j] + "N"
            try:
                c.vectorise_batch(bad)
                emit({"ev": "pyerror", "what": "batch with a bad nucleotide did not raise"})
            except ValueError:
                cgr_event(bad[j], size, None, "py-batch")
            # the failed call leaves nothing behind: the same object computes the clean batch again
            again = c.vectorise_batch(list(seqs))
            emit({"ev": "batchlen", "n": bs, "got": len(again)})
            for s2, pts2 in list(zip(seqs, again))[:40]:
                cgr_event(s2, size, pts2, "py-batch-after-error")
    emit({"ev": "eof"})


def batch(seed):
    """vectorise_batch returns exactly the per-sequence results in argument order, any batch size"""
    rng = random.Random(seed)
    # the same string object many times, and many empty strings
    for seqs in ([gen_string(rng, 25)] * 3000, [""] * 3000, ["ACGT", ""] * 700):
        oc = pk.OligoComputer(3)
        res = oc.vectorise_batch(seqs, False)
        emit({"ev": "batchlen", "n": len(seqs), "got": len(res)})
        for s, vals in list(zip(seqs, res))[:3] + list(zip(seqs, res))[-3:]:
            orec(3, False, s, vals, "py-batch-repeated")
    for bs in (0, 1, 7, 1000, 5000):
        k = rng.choice([1, 2, 3, 4]) if bs > 1000 else rng.choice([2, 3, 5])
        norm = bs % 2 == 0
        oc = pk.OligoComputer(k)
        # distinguishable elements: each sequence differs from its neighbours
        seqs = [gen_string(rng, rng.randint(0, 30)) for _ in range(bs)]
        res = oc.vectorise_batch(list(seqs), norm)
        emit({"ev": "batchlen", "n": bs, "got": len(res)})
        for s, vals in zip(seqs, res):
            orec(k, norm, s, vals, "py-batch")
    emit({"ev": "eof"})


def bits(fa, size, kmax):
    """bit patterns of what the binding returns, for comparison with the Rust core on the same records (`kvh trace bits`):
    whole-sequence CGR at square size `size`, oligo vectors (raw and normalised) for k = 1..kmax"""
    import hashlib, struct
    seqs = [s.decode("latin-1") for s in read_fasta(fa)]
    c = pk.CgrComputer(size)
    for i, s in enumerate(seqs):
        try:
            pts = c.vectorise_one(s)
            h = hashlib.sha256(b"".join(struct.pack("<dd", x, y) for x, y in pts)).hexdigest()[:16]
        except ValueError:
            h = "error"
        emit({"ev": "bits", "what": "cgr", "i": i, "size": size, "d": h})
    for k in range(1, kmax + 1):
        oc = pk.OligoComputer(k)
        for norm in (False, True):
            for i, s in enumerate(seqs):
                v = oc.vectorise_one(s, norm)
                h = hashlib.sha256(b"".join(struct.pack("<d", x) for x in v)).hexdigest()[:16]
                emit({"ev": "bits", "what": "oligo", "k": k, "norm": 1 if norm else 0, "i": i, "d": h})


def threads(seed):
    """two Python threads using the same computer objects at the same time: every call returns what it returns alone"""
    import hashlib, struct, threading
    rng = random.Random(seed)
    seqs = ["".join(rng.choice("ACGTacgu") for _ in range(rng.randint(50, 400))) for _ in range(4000)]
    oc = pk.OligoComputer(4)
    cc = pk.CgrComputer(16)

    def dig_o(res):
        return hashlib.sha256(b"".join(struct.pack("<d", x) for v in res for x in v)).hexdigest()[:16]

    def dig_c(res):
        return hashlib.sha256(b"".join(struct.pack("<dd", x, y) for v in res for (x, y) in v)).hexdigest()[:16]

    def bad_batch():
        try:
            cc.vectorise_batch(list(seqs[:800]) + ["ACGTNACGT"] + list(seqs[:400]))
            return "no exception"
        except ValueError:
            return "ValueError"

    jobs = {
        "oligo vectorise_batch": lambda: dig_o(oc.vectorise_batch(list(seqs), True)),
        "oligo vectorise_one": lambda: dig_o([oc.vectorise_one(s, False) for s in seqs[:1500]]),
        "cgr vectorise_batch": lambda: dig_c(cc.vectorise_batch(list(seqs[:1500]))),
        "cgr vectorise_batch with a bad sequence": lambda: bad_batch(),
        "kmer iterators": lambda: hashlib.sha256(repr([list(pk.KmerGenerator(s, 5)) for s in seqs[:300]]).encode()).hexdigest()[:16],
    }
    alone = {name: job() for name, job in jobs.items()}
    for rnd in range(3):
        got = {}

        def run(name, slot):
            try:
                got[(name, slot)] = jobs[name]()
            except BaseException as e:          # noqa
                got[(name, slot)] = "raised %s: %s" % (type(e).__name__, e)
        names = list(jobs)
        # the same job twice at once, and two different jobs on the same objects
        pairs = [(n, n) for n in names] + [(names[0], names[1]), (names[0], names[2]), (names[2], names[3]), (names[3], names[2])]
        for a, b in pairs:
            ts = [threading.Thread(target=run, args=(a, 0)), threading.Thread(target=run, args=(b, 1))]
            for t in ts:
                t.start()
            for t in ts:
                t.join()
            for slot, n in ((0, a), (1, b)):
                emit({"ev": "eq", "what": "two python threads (%s | %s), round %d: %s" % (a, b, rnd, n), "a": alone[n], "b": got.get((n, slot), "missing")})
    emit({"ev": "eof"})


def main():
    cmd = sys.argv[2]
    a = sys.argv[3:]
    if cmd == "header":
        header(int(a[0]), int(a[1]))
    elif cmd == "headertable":
        headertable(int(a[0]))
    elif cmd == "oligo":
        oligo(a[0], int(a[1]), int(a[2]))
    elif cmd == "kmer":
        kmer(int(a[0]), int(a[1]), int(a[2]))
    elif cmd == "minimiser":
        minimiser(int(a[0]), int(a[1]), int(a[2]))
    elif cmd == "cgr":
        cgr(int(a[0]), int(a[1]), int(a[2]))
    elif cmd == "batch":
        batch(int(a[0]))
    elif cmd == "threads":
        threads(int(a[0]))
    elif cmd == "bits":
        bits(a[0], int(a[1]), int(a[2]))
    else:
        raise SystemExit("unknown command " + cmd)


if __name__ == "__main__":
    main()

"""entry point of the pip flavour: pykmertools.run_cli() parses the process arguments itself (std::env::args_os().skip(1)),
so the module directory comes from the environment, not from argv"""
import os, sys
sys.path.insert(0, os.environ["PYK_DIR"])
import pykmertools
pykmertools.run_cli()

"""Per-property manifest texts (source of MANIFEST.json, see bin/mkmanifest)."""
NOTES = ("All checks: bin/check <id> quick|thorough. The TLA+ specification under spec/ is the only oracle; "
         "the Rust harness (harness/, built from /repo's working tree with feature verif_hooks) and py/driver.py only "
         "drive the implementation, record what it did and replay what TLC generated. See DESIGN.md.")
NOT_APPLICABLE = {}
TB = ("Trusted: TLC 1.8 and the Json/IOUtils community modules; the harness's enumeration order, byte rendering and "
      "u64->base-4-digit conversion; exhaustiveness only within the stated bounds. ")
CHECKS = {
 "C01": {
  "text": "TLC explores the KmerIter specification over every string of the 5 classes {A,C,G,T/U,other} up to length 7 (quick) / 9 (thorough) for k=1..4 and checks in every state that the output is exactly the clean windows of the consumed prefix, plus the register invariant; the same run loads the real KmerGenerator's output for every one of those inputs and requires equality (B1). Random byte strings with k=1..31 and every byte value 4..255 are validated call-by-call (returned pair as 32 digits, pos, len, registers) against the same specification (B2).",
  "ref": "DESIGN.md 5.2, 6 C01",
  "note": TB + "k=5..31 are covered by validated traces, not exhaustively.",
  "technique": "TLC exhaustive model checking with implementation table (B1) + TLC trace validation (B2)"},
 "C02": {
  "text": "TLC walks the tree of all base-4 digit strings up to length 8 (quick) / 10 (thorough) - every code x<4^k for every k in range - checking that the loop-shaped rev_comp and numeric_to_kmer of the specification equal the declarative RC/Decode, involution, text reverse complement and Encode(Decode(x))=x, and that the real rev_comp / numeric_to_kmer agree on every code (table loaded into TLC). Strand symmetry: MCKmerIter checks PairRC, StrandSym and the canonical multiset on the model and ImplStrandSym on the real iterator's table for all class strings up to length 6/8. Codes for k up to 31 are sampled (extremes, RC-palindromes, perturbations) and judged by the specification as 32-digit words.",
  "ref": "DESIGN.md 5.1, 6 C02",
  "note": TB + "Exhaustive for k<=10 rather than the statement's k<=12 (JSON loading into TLC is the bottleneck); k=11..31 sampled.",
  "technique": "TLC exhaustive model checking with implementation table (B1) + TLC-judged sampled facts (B2)"},
 "C03": {
  "text": "TLC scans all 4^k codes for every k<=8 (quick) / 10 (thorough) with a rank counter and compares the real kmer_pos_maps(k) at every code: rank of each canonical code, exact inverse, count equal to the closed form, every table entry inside the vector. Header lines of `kmertools comp oligo -H` for k=3..7 x {csv,tsv,spc} x {mmap, batch} and the Python get_header() for k=1..8 are decoded to letter bytes and compared by TLC with the specification's canonical list.",
  "ref": "DESIGN.md 5.3, 6 C03",
  "note": TB + "Header lines are split on the preset's delimiter by the check script.",
  "technique": "TLC exhaustive model checking with implementation table (B1) + TLC-judged header facts from CLI and Python (B4)"},
 "C09": {
  "text": "TLC explores the Minimiser specification (a transcription of the iterator's loop body: rolling m-mer, ring buffer, leftmost-minimum rescan, run breaking, end-of-input flush) over every string of {A,C,G,T/U,other} up to length 7 (quick) / 9 (thorough) for seven (w,m) pairs, and over {A,C,other} up to length 10/12 for larger windows, checking in every state that emitted runs + open run equal the declarative maximal runs of the consumed prefix, the ring-buffer invariant and that no placeholder is emitted; the same run requires the real MinimiserGenerator's and KmerMinimiserGenerator's complete outputs to equal the model's for every input (B1). Random runs with m<=31, w<=m+60 are validated call-by-call including pos, ml, ring length, buff_pos, m_active, window start and the m-mer registers (B2).",
  "ref": "DESIGN.md 5.4, 6 C09",
  "note": TB + "Exhaustive only for m<=3 and short inputs; larger parameters by validated traces.",
  "technique": "TLC exhaustive model checking with implementation table (B1) + TLC trace validation with internal state (B2)"},
 "C18": {
  "text": "Same specification as C09 extended with the rolling W-mer and the per-run k-mer lists: TLC checks in every state that the concatenated lists plus the current call's list are exactly the canonical w-mers of the consumed prefix (KConcat) and that the runs are the declarative runs (hence equal to the plain iterator's, which is bound to the same model), and requires the real KmerMinimiserGenerator's complete output (runs and lists) to equal the model's for every input up to the bound (B1); random runs with m<=w<=31 validated call-by-call incl. internal state and w-mers as 32-digit words (B2).",
  "ref": "DESIGN.md 5.4, 6 C18",
  "note": TB + "Attribution of a w-mer to a particular run is not constrained by the property; the model transcribes the code's attribution and the conformance check therefore also pins it.",
  "technique": "TLC exhaustive model checking with implementation table (B1) + TLC trace validation with internal state (B2)"},
 "C04": {
  "text": "TLC explores the OligoVec specification (accumulator over the k-mer iterator, column = rank of the canonical k-mer) over every string of {A,C,G,T/U,other} up to length 6 (quick) / 7-8 (thorough) for k=1..3, checking in every state that the vector is the declarative count of canonical windows, totals, reverse-complement invariance and that every index stays in range; every one of those strings is also a record of a FASTA file run through the real OligoComputer file API (counts via the batch writer, normalised via the memory-mapped and the batch writer) and TLC requires each output row to equal the model's (normalised digits by the scaled-integer inequality |v6*total - count*10^6| <= total/2). Random records with RC / case / T<->U variants for k=1..8 through the library, the CLI (k=3..7) and the Python binding are judged row by row by the specification's declarative Count (FactsTrace).",
  "ref": "DESIGN.md 5.5, 6 C04",
  "note": TB + "Row text is decoded to integers by the harness (sparse_row). Records are limited to 600 bases in TLC-validated traces (32-bit products).",
  "technique": "TLC exhaustive model checking with implementation table through the file API (B1) + TLC-judged per-record facts (B2/B4)"},
 "C11": {
  "text": "The Cgr specification models the midpoint rule on dyadic bit paths (a coordinate is the sequence of corner bits of the bases read so far, newest first); TLC explores every string of {A,C,G,T/U,other} up to length 7/8, checks prefix determinism, sub-square containment and rejection iff a non-nucleotide byte occurs, and requires the exact integer numerator of every coordinate returned by the real vectorise_one (three square sizes) to equal the model's (B1). Random sequences up to thousands of bases (exact numerators for the first 29 points, top-20-bit containment beyond), six square sizes, the file path with 1..16 threads and batch limits {1,64,4GiB}, and the CLI including refusal of a record with a bad byte are judged by FactsTrace.",
  "ref": "DESIGN.md 5.5, 6 C11",
  "note": TB + "Numeric property: the model decides the discrete skeleton (corner, order, halving); exactness of the f64 arithmetic is established by the decoder's exact-integer check (harness code, trusted).",
  "technique": "TLC exhaustive model checking with implementation table (B1) + TLC-judged per-record facts (B2/B4)"},
 "C12": {
  "text": "Every string up to length 5-7 for k=1..3 is run as one record through the real OligoCgrComputer file API (raw and normalised, small batch limit); TLC checks the frequencies against the OligoVec model in every state and the harness reports any row whose coordinates are not bit-identical to the first row's. For random records, k=1..7, sizes {1,k^2,16,2^20}, 1..16 threads, and through the CLI (incl. default -v = k^2), TLC checks that every column's (x,y) numerators are the chaos-game end point of that column's canonical k-mer text and that each row's frequencies are the declarative counts (raw or correct to 6 decimals).",
  "ref": "DESIGN.md 5.5, 6 C12",
  "note": TB + "Triples are decoded by the harness; frequencies are compared to 6 decimals (any wrong count differs by at least 1/total).",
  "technique": "TLC exhaustive model checking with implementation table through the file API (B1) + TLC-judged per-record facts (B2/B4)"},
 "C13": {
  "text": "The Python module built from the working tree is driven by py/driver.py, which emits the same event formats as the Rust harness; the same TLA+ trace specifications that bind the Rust core (KmerIterTrace, MinimiserTrace, FactsTrace) validate the binding's k-mer iterator, minimiser iterator, to_acgt, oligo vectors (raw and normalised), header, CGR (incl. ValueError) and batch calls of sizes 0..5000 element by element in argument order, on ASCII, mixed-case and arbitrary unicode strings; iterators are built from released temporaries with allocator churn between next() calls; an interpreter crash is a violation.",
  "ref": "DESIGN.md 6 C13",
  "note": TB + "The lifetime clause is exercised behaviourally, not proved (a dangling read of intact memory is invisible).",
  "technique": "TLC trace validation of the Python binding against the same specifications as the Rust core (B2)"},
}

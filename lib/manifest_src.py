"""Per-property manifest texts (source of MANIFEST.json, see bin/mkmanifest)."""
NOTES = ("All checks: bin/check <id> quick|thorough. The TLA+ specification under spec/ is the only oracle; "
         "the Rust harness (harness/, built from /repo's working tree with feature verif_hooks) and py/driver.py only "
         "drive the implementation, record what it did and replay what TLC generated. See DESIGN.md.")
NOT_APPLICABLE = {}
TB = ("Trusted: TLC 1.8 and the Json/IOUtils community modules; the harness's enumeration order, byte rendering and "
      "u64->base-4-digit conversion; exhaustiveness only within the stated bounds. ")
CHECKS = {
 "C01": {
  "text": "TLC explores the KmerIter specification over every string of the 5 classes {A,C,G,T/U,other} up to length 7 (quick) / 9 (thorough) for k=1..4 and checks in every state that the output is exactly the clean windows of the consumed prefix, plus the register invariant; the same run loads the real KmerGenerator's output for every one of those inputs and requires equality (B1). Random byte strings with k=1..31 and every byte value 4..255 are validated call-by-call (returned pair as 32 digits, pos, len, registers) against the same specification (B2).",
  "ref": "DESIGN.md 5.2, 6 C01",
  "note": TB + "k=5..31 are covered by validated traces, not exhaustively.",
  "technique": "TLC exhaustive model checking with implementation table (B1) + TLC trace validation (B2)"},
 "C02": {
  "text": "TLC walks the tree of all base-4 digit strings up to length 8 (quick) / 10 (thorough) - every code x<4^k for every k in range - checking that the loop-shaped rev_comp and numeric_to_kmer of the specification equal the declarative RC/Decode, involution, text reverse complement and Encode(Decode(x))=x, and that the real rev_comp / numeric_to_kmer agree on every code (table loaded into TLC). Strand symmetry: MCKmerIter checks PairRC, StrandSym and the canonical multiset on the model and ImplStrandSym on the real iterator's table for all class strings up to length 6/8. Codes for k up to 31 are sampled (extremes, RC-palindromes, perturbations) and judged by the specification as 32-digit words.",
  "ref": "DESIGN.md 5.1, 6 C02",
  "note": TB + "Exhaustive for k<=10 rather than the statement's k<=12 (JSON loading into TLC is the bottleneck); k=11..31 sampled.",
  "technique": "TLC exhaustive model checking with implementation table (B1) + TLC-judged sampled facts (B2)"},
 "C03": {
  "text": "TLC scans all 4^k codes for every k<=8 (quick) / 10 (thorough) with a rank counter and compares the real kmer_pos_maps(k) at every code: rank of each canonical code, exact inverse, count equal to the closed form, every table entry inside the vector. Header lines of `kmertools comp oligo -H` for k=3..7 x {csv,tsv,spc} x {mmap, batch} and the Python get_header() for k=1..8 are decoded to letter bytes and compared by TLC with the specification's canonical list.",
  "ref": "DESIGN.md 5.3, 6 C03",
  "note": TB + "Header lines are split on the preset's delimiter by the check script.",
  "technique": "TLC exhaustive model checking with implementation table (B1) + TLC-judged header facts from CLI and Python (B4)"},
 "C09": {
  "text": "TLC explores the Minimiser specification (a transcription of the iterator's loop body: rolling m-mer, ring buffer, leftmost-minimum rescan, run breaking, end-of-input flush) over every string of {A,C,G,T/U,other} up to length 7 (quick) / 9 (thorough) for seven (w,m) pairs, and over {A,C,other} up to length 10/12 for larger windows, checking in every state that emitted runs + open run equal the declarative maximal runs of the consumed prefix, the ring-buffer invariant and that no placeholder is emitted; the same run requires the real MinimiserGenerator's and KmerMinimiserGenerator's complete outputs to equal the model's for every input (B1). Random runs with m<=31, w<=m+60 are validated call-by-call including pos, ml, ring length, buff_pos, m_active, window start and the m-mer registers (B2).",
  "ref": "DESIGN.md 5.4, 6 C09",
  "note": TB + "Exhaustive only for m<=3 and short inputs; larger parameters by validated traces.",
  "technique": "TLC exhaustive model checking with implementation table (B1) + TLC trace validation with internal state (B2)"},
 "C18": {
  "text": "Same specification as C09 extended with the rolling W-mer and the per-run k-mer lists: TLC checks in every state that the concatenated lists plus the current call's list are exactly the canonical w-mers of the consumed prefix (KConcat) and that the runs are the declarative runs (hence equal to the plain iterator's, which is bound to the same model), and requires the real KmerMinimiserGenerator's complete output (runs and lists) to equal the model's for every input up to the bound (B1); random runs with m<=w<=31 validated call-by-call incl. internal state and w-mers as 32-digit words (B2).",
  "ref": "DESIGN.md 5.4, 6 C18",
  "note": TB + "Attribution of a w-mer to a particular run is not constrained by the property; the model transcribes the code's attribution and the conformance check therefore also pins it.",
  "technique": "TLC exhaustive model checking with implementation table (B1) + TLC trace validation with internal state (B2)"},
}

"""Per-property manifest texts (source of MANIFEST.json, see bin/mkmanifest)."""
NOTES = ("All checks: bin/check <id> quick|thorough. The TLA+ specification under spec/ is the only oracle; "
         "the Rust harness (harness/, built from /repo's working tree with feature verif_hooks) and py/driver.py only "
         "drive the implementation, record what it did and replay what TLC generated. See DESIGN.md.")
NOT_APPLICABLE = {}
TB = ("Trusted: TLC 1.8 and the Json/IOUtils community modules; the harness's enumeration order, byte rendering and "
      "u64->base-4-digit conversion; exhaustiveness only within the stated bounds. ")
CHECKS = {
 "C01": {
  "text": "TLC explores the KmerIter specification over every string of the 5 classes {A,C,G,T/U,other} up to length 7 (quick) / 9 (thorough) for k=1..4 and checks in every state that the output is exactly the clean windows of the consumed prefix, plus the register invariant; the same run loads the real KmerGenerator's output for every one of those inputs and requires equality (B1). Random byte strings with k=1..31 and every byte value 4..255 are validated call-by-call (returned pair as 32 digits, pos, len, registers) against the same specification (B2).",
  "ref": "DESIGN.md 5.2, 6 C01",
  "note": TB + "k=5..31 are covered by validated traces, not exhaustively.",
  "technique": "TLC exhaustive model checking with implementation table (B1) + TLC trace validation (B2)"},
}

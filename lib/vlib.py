"""Shared machinery of the /verif checks: build, run TLC, parse, evidence, violations.

Exit-code contract (MANIFEST): 0 = held on everything explored, 1 = VIOLATION line printed
with a replay file, 2 = tool error (build failure, TLC/SANY error, timeout) - never a VIOLATION.
"""
import json, os, re, shutil, subprocess, sys, time, hashlib

ROOT = os.path.dirname(os.path.dirname(os.path.abspath(__file__)))
SPEC = os.path.join(ROOT, "spec")
# The tree under test is /repo. For experiments on a changed copy (bin/seedtest) VERIF_REPO names another checkout and
# VERIF_OUT a scratch directory that then receives the harness copy, build output, run files, evidence and replays,
# so that neither /repo nor /verif's own evidence is touched.
REPO = os.path.abspath(os.environ.get("VERIF_REPO", "/repo"))
OUT = os.path.abspath(os.environ.get("VERIF_OUT", ROOT))
ALT = OUT != ROOT
HARNESS_DIR = os.path.join(OUT if ALT else ROOT, "harness")
TARGET = os.path.join(OUT if ALT else ROOT, "target")
KVH = os.path.join(TARGET, "harness", "release", "kvh")
JAR = "/opt/veriftools/tla/tla2tools.jar:/opt/veriftools/tla/CommunityModules-deps.jar"
NCPU = os.cpu_count() or 4


class ToolError(Exception):
    pass


class SubjectCrash(Exception):
    """the harness process itself was killed while running code under test (abort from an unsafe-precondition check,
    double free, segfault, uncaught panic): that is an outcome of the subject, i.e. data, not a tool failure"""
    def __init__(self, args, returncode, stderr):
        super().__init__("subject crashed: kvh %s -> %s" % (" ".join(map(str, args)), returncode))
        self.kvh_args = [str(a) for a in args]
        self.returncode = returncode
        self.stderr = stderr


def log(*a):
    print(*a, file=sys.stderr, flush=True)


def sh(cmd, env=None, cwd=None, timeout=None, stdout=None, stdin=None, check=False, input=None):
    e = dict(os.environ)
    e.setdefault("CARGO_NET_OFFLINE", "true")
    e["RUST_BACKTRACE"] = "0"
    if env:
        e.update({k: str(v) for k, v in env.items()})
    t0 = time.time()
    try:
        p = subprocess.run(cmd, env=e, cwd=cwd, timeout=timeout, stdout=stdout if stdout else subprocess.PIPE,
                           stderr=subprocess.PIPE, stdin=stdin, input=input)
    except subprocess.TimeoutExpired as ex:
        r = lambda: None
        r.returncode, r.stdout, r.stderr, r.timeout, r.wall = None, ex.stdout or b"", ex.stderr or b"", True, time.time() - t0
        if check:
            raise ToolError("timeout: %s" % " ".join(map(str, cmd)))
        return r
    p.timeout = False
    p.wall = time.time() - t0
    if check and p.returncode != 0:
        raise ToolError("command failed (%s): %s\n%s" % (p.returncode, " ".join(map(str, cmd)),
                                                          (p.stderr or b"").decode(errors="replace")[-4000:]))
    return p


# ----------------------------------------------------------------------------- builds
_built = {}


def build_harness():
    """Rebuild the harness (path deps on /repo's working tree, feature verif_hooks). Incremental."""
    if "harness" in _built:
        return KVH
    if ALT and not os.path.exists(os.path.join(HARNESS_DIR, "Cargo.toml")):
        # a private copy of the harness whose path dependencies point at the alternative checkout
        src = os.path.join(ROOT, "harness")
        shutil.copytree(src, HARNESS_DIR, ignore=shutil.ignore_patterns("target", "Cargo.lock"))
        t = open(os.path.join(HARNESS_DIR, "Cargo.toml")).read().replace('path = "/repo/', 'path = "%s/' % REPO)
        open(os.path.join(HARNESS_DIR, "Cargo.toml"), "w").write(t)
    lock = os.path.join(HARNESS_DIR, "Cargo.lock")
    # always start from /repo's lock file so that no resolution (network) is needed
    if not os.path.exists(lock):
        base = open(os.path.join(REPO, "Cargo.lock")).read()
        open(lock, "w").write(base)
    t0 = time.time()
    p = sh(["cargo", "build", "--release", "--offline"], cwd=HARNESS_DIR, timeout=1800)
    if p.returncode != 0:
        # a stale lock can be the reason: retry once from a fresh copy of /repo's lock
        shutil.copy(os.path.join(REPO, "Cargo.lock"), lock)
        p = sh(["cargo", "build", "--release", "--offline"], cwd=HARNESS_DIR, timeout=1800)
    if p.returncode != 0:
        raise ToolError("harness build failed:\n" + p.stderr.decode(errors="replace")[-6000:])
    _built["harness"] = time.time() - t0
    return KVH


def build_cli():
    """Build the kmertools binary from /repo's working tree (hooks off), into /verif/target/repo."""
    if "cli" in _built:
        return _built["cli"]
    td = os.path.join(TARGET, "repo")
    p = sh(["cargo", "build", "--release", "--offline", "-p", "kmertools"], cwd=REPO,
           env={"CARGO_TARGET_DIR": td}, timeout=3600)
    if p.returncode != 0:
        raise ToolError("CLI build failed:\n" + p.stderr.decode(errors="replace")[-6000:])
    _built["cli"] = os.path.join(td, "release", "kmertools")
    return _built["cli"]


def build_py():
    """Build the Python extension from /repo's working tree; returns the directory to put on sys.path."""
    if "py" in _built:
        return _built["py"]
    td = os.path.join(TARGET, "repo")
    p = sh(["cargo", "build", "--release", "--offline", "-p", "pip"], cwd=REPO,
           env={"CARGO_TARGET_DIR": td}, timeout=3600)
    if p.returncode != 0:
        raise ToolError("pykmertools build failed:\n" + p.stderr.decode(errors="replace")[-6000:])
    d = os.path.join(TARGET, "py")
    os.makedirs(d, exist_ok=True)
    src = os.path.join(td, "release", "libpykmertools.so")
    dst = os.path.join(d, "pykmertools.so")
    shutil.copyfile(src, dst)
    _built["py"] = d
    return d


def kvh(args, out=None, env=None, timeout=1800, input=None):
    """Run the harness; stdout to file `out` if given. The harness itself never judges anything."""
    build_harness()
    if out:
        with open(out, "wb") as f:
            p = sh([KVH] + [str(a) for a in args], stdout=f, env=env, timeout=timeout, input=input)
    else:
        p = sh([KVH] + [str(a) for a in args], env=env, timeout=timeout, input=input)
    if p.timeout:
        raise ToolError("harness timeout: %s" % args)
    if p.returncode != 0:
        err = p.stderr.decode(errors="replace")
        # usage errors / missing arguments are harness bugs; a signal, an abort or a panic that escaped is the subject's
        if p.returncode < 0 or p.returncode in (101, 134, 139) or "panic under test" in err or "unsafe precondition" in err:
            raise SubjectCrash(args, p.returncode, err[-3000:])
        raise ToolError("harness failed (%s) %s:\n%s" % (p.returncode, args, err[-4000:]))
    return p


# ----------------------------------------------------------------------------- TLC
class TlcResult:
    def __init__(self):
        self.generated = 0
        self.distinct = 0
        self.depth = 0
        self.ok = False
        self.violated = None      # name of violated invariant / property / "postcondition" / "deadlock"
        self.cex = []             # list of state texts
        self.out = ""
        self.wall = 0.0
        self.coverage = {}        # action name -> (distinct, generated)
        self.printed = []         # PrintT outputs (lines starting with <<")
        self.rejected_at = None   # for trace validation


RE_STATES = re.compile(r"(\d+) states generated, (\d+) distinct states found")
RE_DEPTH = re.compile(r"The depth of the complete state graph search is (\d+)")
RE_INV = re.compile(r"Error: Invariant (\S+) is violated")
RE_PROP = re.compile(r"Error: (Action|Temporal) propert(y|ies) (.*) (is|were) violated")
RE_COV = re.compile(r"^<(\w+) line \d+, col \d+ to line \d+, col \d+ of module (\w+)>: (\d+):(\d+)", re.M)


def tlc(module, cfg=None, env=None, workers=None, trace=False, timeout=1800, rundir=None, coverage=False,
        simulate=None, depth=None, extra=None, heap=None):
    """Run TLC on spec/<module>.tla with spec/<cfg>.cfg. Returns TlcResult; raises ToolError on tool failures."""
    cfg = cfg or module
    rundir = rundir or os.path.join(OUT, "run", "tlc")
    import uuid
    meta = os.path.join(rundir, "states-%s-%s" % (cfg, uuid.uuid4().hex[:12]))
    os.makedirs(rundir, exist_ok=True)
    if trace:
        jopts = ["-XX:+UseSerialGC", "-XX:TieredStopAtLevel=4", "-Xss1g", "-Dtlc2.tool.queue.IStateQueue=StateDeque"]
        workers = 1
    else:
        jopts = ["-XX:+UseParallelGC", "-Xss256m"]
    if heap:
        jopts += ["-Xmx" + heap]
    workers = workers or NCPU
    cmd = ["java"] + jopts + ["-cp", JAR, "tlc2.TLC", "-workers", str(workers), "-metadir", meta, "-cleanup", "-checkpoint", "0",
                              "-noGenerateSpecTE", "-config", os.path.join(SPEC, cfg + ".cfg")]
    if coverage:
        cmd += ["-coverage", "1"]
    if simulate:
        cmd += ["-simulate", "num=%d" % simulate]
    if depth:
        cmd += ["-depth", str(depth)]
    if extra:
        cmd += extra
    cmd += [os.path.join(SPEC, module + ".tla")]
    e = {"JAVA_TOOL_OPTIONS": ""}
    if env:
        e.update(env)
    p = sh(cmd, env=e, cwd=rundir, timeout=timeout)
    shutil.rmtree(meta, ignore_errors=True)
    r = TlcResult()
    r.wall = p.wall
    out = (p.stdout or b"").decode(errors="replace")
    r.out = out
    if p.timeout:
        raise ToolError("TLC timeout after %ss on %s/%s" % (timeout, module, cfg))
    m = None
    for m in RE_STATES.finditer(out):
        pass
    if m:
        r.generated, r.distinct = int(m.group(1)), int(m.group(2))
    m = RE_DEPTH.search(out)
    if m:
        r.depth = int(m.group(1))
    for m in RE_COV.finditer(out):
        r.coverage[m.group(1)] = (int(m.group(3)), int(m.group(4)))
    r.printed = [l for l in out.splitlines() if l.startswith("<<\"")]
    mi = RE_INV.search(out)
    mp = RE_PROP.search(out)
    if mi:
        r.violated = mi.group(1)
    elif mp:
        r.violated = mp.group(3)
    elif "Error: Deadlock reached" in out:
        r.violated = "deadlock"
    elif re.search(r"Error: Postcondition", out):
        r.violated = "postcondition"
        m = re.search(r'<<"REJECTED", (\d+)>>', out)
        if m:
            r.rejected_at = int(m.group(1))
    if r.violated:
        # split the counterexample states
        parts = re.split(r"\nState \d+: ", out)
        r.cex = [x.split("\n\n")[0] for x in parts[1:]]
        return r
    if "Model checking completed. No error has been found." in out or \
            (simulate and p.returncode == 0 and "Error:" not in out):
        r.ok = True
        return r
    raise ToolError("TLC error on %s/%s (exit %s):\n%s\n%s" % (module, cfg, p.returncode, out[-6000:],
                                                               (p.stderr or b"").decode(errors="replace")[-2000:]))


def parse_tla_value(txt):
    """Very small parser for TLC's printed values (ints, strings, TRUE/FALSE, <<..>>, {..}, [a |-> ..])."""
    pos = 0
    n = len(txt)

    def ws():
        nonlocal pos
        while pos < n and txt[pos] in " \n\t\r":
            pos += 1

    def val():
        nonlocal pos
        ws()
        if txt.startswith("<<", pos):
            pos += 2
            items = []
            ws()
            if txt.startswith(">>", pos):
                pos += 2
                return items
            while True:
                items.append(val())
                ws()
                if txt.startswith(">>", pos):
                    pos += 2
                    return items
                assert txt[pos] == ",", (txt[pos:pos + 20])
                pos += 1
        if txt[pos] == "{":
            pos += 1
            items = []
            ws()
            if txt[pos] == "}":
                pos += 1
                return {"set": items}
            while True:
                items.append(val())
                ws()
                if txt[pos] == "}":
                    pos += 1
                    return {"set": items}
                assert txt[pos] == ","
                pos += 1
        if txt[pos] == "[":
            pos += 1
            d = {}
            while True:
                ws()
                m = re.match(r"(\w+) \|-> ", txt[pos:])
                assert m, txt[pos:pos + 30]
                pos += m.end()
                d[m.group(1)] = val()
                ws()
                if txt[pos] == "]":
                    pos += 1
                    return d
                assert txt[pos] == ","
                pos += 1
        if txt[pos] == "(":
            # function display  (a :> b @@ c :> d)
            pos += 1
            d = {}
            while True:
                k = val()
                ws()
                assert txt.startswith(":>", pos)
                pos += 2
                d[json.dumps(k)] = val()
                ws()
                if txt[pos] == ")":
                    pos += 1
                    return d
                assert txt.startswith("@@", pos)
                pos += 2
        if txt[pos] == '"':
            e = txt.index('"', pos + 1)
            s = txt[pos + 1:e]
            pos = e + 1
            return s
        m = re.match(r"-?\d+", txt[pos:])
        if m:
            pos += m.end()
            return int(m.group(0))
        m = re.match(r"\w+", txt[pos:])
        assert m, txt[pos:pos + 30]
        pos += m.end()
        return {"TRUE": True, "FALSE": False}.get(m.group(0), m.group(0))

    return val()


def parse_state(text):
    """A counterexample state '/\\ a = ..\\n/\\ b = ..' -> dict of parsed values (best effort)."""
    d = {}
    body = text.split("\n", 1)[1] if text.startswith("<") and "\n" in text else text
    for m in re.finditer(r"^/\\ (\w+) = (.*?)(?=^/\\ |\Z)", body, re.M | re.S):
        try:
            d[m.group(1)] = parse_tla_value(m.group(2).strip())
        except Exception:
            d[m.group(1)] = m.group(2).strip()
    return d


# ----------------------------------------------------------------------------- evidence / violations
class Ctx:
    def __init__(self, pid, tier, seed):
        self.pid = pid
        self.tier = tier
        self.seed = seed
        self.t0 = time.time()
        self.rundir = os.path.join(OUT, "run", pid)
        shutil.rmtree(self.rundir, ignore_errors=True)
        os.makedirs(self.rundir, exist_ok=True)
        self.states = 0
        self.transitions = 0
        self.traces = 0
        self.evaluations = 0
        self.nontrivial = 0
        self.samples = []
        self.stages = []
        self.violations = []
        self.known = []
        self.assumptions = []
        self.trusted = []
        self.exhaustive = True
        self.rule = ""
        self.findings = load_findings()
        self.deferred = []        # tool problems that only matter if no violation is established by the remaining stages

    def thorough(self):
        return self.tier == "thorough"

    def path(self, name):
        return os.path.join(self.rundir, name)

    def add_mc(self, stage, r, **info):
        self.states += r.distinct
        self.transitions += r.generated
        d = {"stage": stage, "distinct_states": r.distinct, "states_generated": r.generated,
             "depth": r.depth, "wall_s": round(r.wall, 1)}
        if r.coverage:
            d["actions"] = {k: v[1] for k, v in r.coverage.items()}
        d.update(info)
        self.stages.append(d)
        log("[%s] %s: %d distinct / %d generated, %.1fs %s" % (self.pid, stage, r.distinct, r.generated, r.wall,
                                                               "VIOLATED " + r.violated if r.violated else "ok"))

    def sample(self, s):
        if len(self.samples) < 12:
            self.samples.append(s)

    def violation(self, stage, case, detail=None):
        """Record a violation (or a known finding when the committed file lists exactly this case)."""
        sig = {"stage": stage, "case": case}
        for f in self.findings:
            if f.get("property") == self.pid and f.get("status") == "known" and finding_matches(f, stage, case):
                self.known.append((f, sig))
                print("KNOWN-FINDING: property=%s %s" % (self.pid, f.get("what", "")), flush=True)
                return False
        n = len(self.violations) + 1
        os.makedirs(os.path.join(OUT, "replays"), exist_ok=True)
        path = os.path.join(OUT, "replays", "%s-%s-%d-%d.json" % (self.pid, self.tier, self.seed, n))
        obj = {"property": self.pid, "tier": self.tier, "seed": self.seed, "stage": stage, "case": case,
               "detail": detail, "rerun": "bin/check %s %s --replay %s" % (self.pid, self.tier, path)}
        with open(path, "w") as f:
            json.dump(obj, f, indent=1, default=str)
        self.violations.append(path)
        print("VIOLATION property=%s replay=%s" % (self.pid, path), flush=True)
        return True

    def finish(self, level_note=None):
        ev = {
            "property_id": self.pid, "tier": self.tier, "seed": self.seed, "level": "model_checking",
            "coverage": {
                "states": self.states, "transitions": self.transitions,
                "traces_validated_against_impl": self.traces,
                "evaluations": self.evaluations, "distinct_nontrivial": self.nontrivial,
                "rule": self.rule, "samples": self.samples if self.samples else ["(none)"],
                "exhaustive": self.exhaustive, "stages": self.stages,
                "trusted_base": self.trusted,
            },
            "assumptions": self.assumptions, "wall_s": round(time.time() - self.t0, 1),
            "violations": len(self.violations),
        }
        if self.known:
            ev["coverage"]["known_findings_hit"] = [k[0].get("id") for k in self.known]
        os.makedirs(os.path.join(OUT, "evidence"), exist_ok=True)
        with open(os.path.join(OUT, "evidence", self.pid + ".json"), "w") as f:
            json.dump(ev, f, indent=1, default=str)
        return 1 if self.violations else 0


def load_findings():
    p = os.path.join(ROOT, "known_findings.jsonl")
    out = []
    if os.path.exists(p):
        for line in open(p):
            line = line.strip()
            if line and not line.startswith("#"):
                out.append(json.loads(line))
    return out


def finding_matches(f, stage, case):
    m = f.get("match", {})
    if m.get("stage") and m["stage"] != stage:
        return False
    want = m.get("case")
    if want is None:
        return False
    # every listed key must match exactly: a finding is one specific failing case
    return all(case.get(k) == v for k, v in want.items())


def stable_hash(s):
    return int(hashlib.sha256(s.encode()).hexdigest()[:8], 16)


def count_events(path, ev):
    n = 0
    keys = ('"ev":"%s"' % ev, '"ev": "%s"' % ev)
    with open(path) as f:
        for line in f:
            if keys[0] in line or keys[1] in line:
                n += 1
    return n


def validate_trace(ctx, module, trace, stage, run_ev, env=None, cfg=None, timeout=1800):
    """B2: check one recorded ndjson trace against a trace spec. Returns True iff accepted and all
    trace invariants hold; otherwise records a violation with the first unmatched event."""
    e = {"VTRACE": trace}
    if env:
        e.update(env)
    r = tlc(module, cfg=cfg, env=e, trace=True, timeout=timeout, rundir=ctx.rundir)
    runs = count_events(trace, run_ev)
    ctx.add_mc(stage, r, trace_events=sum(1 for _ in open(trace)), runs=runs)
    if r.ok:
        ctx.traces += runs
        return True
    lines = open(trace).read().splitlines()
    case = {"trace": os.path.basename(trace)}
    detail = {}
    if r.violated == "postcondition" and r.rejected_at:
        i = r.rejected_at
        detail["first_unmatched_event_index"] = i
        if i <= len(lines):
            detail["first_unmatched_event"] = json.loads(lines[i - 1])
        # the run this event belongs to
        j = i - 1
        while j > 0 and ('"ev":"%s"' % run_ev) not in lines[j - 1 if j > len(lines) else j] \
                and ('"ev": "%s"' % run_ev) not in lines[j - 1 if j > len(lines) else j]:
            j -= 1
        if j < len(lines):
            detail["run_start_event"] = json.loads(lines[j])
            case["input"] = detail["run_start_event"]
    else:
        detail["violated"] = r.violated
        detail["last_state"] = r.cex[-1] if r.cex else None
        case["violated"] = r.violated
        m = re.search(r"\bl = (\d+)", r.cex[-1]) if r.cex else None
        if m and 2 <= int(m.group(1)) <= len(lines) + 1:
            i = int(m.group(1)) - 1          # the event judged by the invariant is the one just consumed
            detail["judged_event_index"] = i
            try:
                detail["judged_event"] = json.loads(lines[i - 1])
                case["event"] = detail["judged_event"]
            except Exception:
                pass
    keep = os.path.join(OUT, "replays", "%s-%s-%d-%s" % (ctx.pid, ctx.tier, ctx.seed, os.path.basename(trace)))
    os.makedirs(os.path.dirname(keep), exist_ok=True)
    shutil.copyfile(trace, keep)
    detail["trace_file"] = keep
    detail["spec"] = module
    ctx.violation(stage, case, detail)
    return False


def parallel(fn, items, width=None):
    """Run fn(item) for all items on a thread pool (the work is in subprocesses)."""
    from concurrent.futures import ThreadPoolExecutor
    width = width or max(1, NCPU // 2)
    with ThreadPoolExecutor(max_workers=width) as ex:
        return list(ex.map(fn, items))


def table_nonempty(path):
    """number of entries / non-empty entries of a dense implementation table"""
    n = ne = 0
    with open(path) as f:
        for line in f:
            row = json.loads(line)
            n += len(row)
            ne += sum(1 for x in row if x)
    return n, ne
